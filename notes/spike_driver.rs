#![feature(rustc_private)]
extern crate rustc_driver;
extern crate rustc_interface;
extern crate rustc_middle;
extern crate rustc_hir;
extern crate rustc_span;
extern crate rustc_abi;
extern crate rustc_ast;

use rustc_driver::Compilation;
use rustc_middle::ty::{self, TyCtxt, Ty};
use rustc_middle::mir::{self, TerminatorKind, Operand, StatementKind, Rvalue, Place, ProjectionElem, Body, Const, ConstValue};
use rustc_hir::def::DefKind;

struct Cb;

fn place_str<'tcx>(tcx: TyCtxt<'tcx>, body: &Body<'tcx>, p: &Place<'tcx>) -> String {
    let mut s = format!("_{}", p.local.as_usize());
    let mut pty = mir::PlaceTy::from_ty(body.local_decls[p.local].ty);
    for elem in p.projection.iter() {
        match elem {
            ProjectionElem::Deref => s = format!("(*{})", s),
            ProjectionElem::Field(f, _fty) => {
                let name = match pty.ty.kind() {
                    ty::Adt(adt, _) => {
                        let v = match pty.variant_index { Some(v) => v, None => rustc_abi::FIRST_VARIANT };
                        let vd = adt.variant(v);
                        format!("{}::{}.{}", tcx.def_path_str(adt.did()), vd.name, vd.fields[f].name)
                    }
                    ty::Closure(did, _) => {
                        let caps = tcx.closure_captures(did.expect_local());
                        format!("upvar:{}", caps[f.as_usize()].var_ident.name)
                    }
                    _ => format!("{}", f.as_usize()),
                };
                s = format!("{}.<{}>", s, name);
            }
            ProjectionElem::Downcast(name, v) => s = format!("({} as {:?}#{})", s, name, v.as_usize()),
            other => s = format!("{}.{:?}", s, other),
        }
        pty = pty.projection_ty(tcx, elem);
    }
    s
}

fn const_str<'tcx>(tcx: TyCtxt<'tcx>, c: &mir::ConstOperand<'tcx>) -> String {
    match c.const_ {
        Const::Unevaluated(uv, _) => format!("UNEVAL({}{})", tcx.def_path_str(uv.def), match uv.promoted { Some(p) => format!("::promoted[{}]", p.as_usize()), None => String::new() }),
        Const::Val(val, ty) => {
            match ty.kind() {
                ty::FnDef(did, args) => format!("FN({} {:?})", tcx.def_path_str(*did), args),
                _ => {
                    if let Some(si) = val.try_to_scalar_int() {
                        if ty.is_bool() { format!("BOOL({})", si.try_to_bool().unwrap()) }
                        else if ty.is_char() { format!("CHAR({:?})", char::from_u32(si.to_u32()).unwrap()) }
                        else { format!("INT({} : {})", si.to_bits(si.size()), ty) }
                    } else if let ConstValue::Slice { .. } = val {
                        if let Some(bytes) = val.try_get_slice_bytes_for_diagnostics(tcx) {
                            format!("SLICE({:?} : {})", String::from_utf8_lossy(bytes), ty)
                        } else { format!("SLICE(?)") }
                    } else if let ConstValue::Indirect { alloc_id, .. } = val {
                        // &[u8; N] byte strings
                        let alloc = tcx.global_alloc(alloc_id);
                        format!("INDIRECT({:?} : {})", alloc, ty)
                    } else { format!("VAL({:?} : {})", val, ty) }
                }
            }
        }
        Const::Ty(t, c2) => format!("TYCONST({:?} {:?})", t, c2),
    }
}

fn op_str<'tcx>(tcx: TyCtxt<'tcx>, body: &Body<'tcx>, o: &Operand<'tcx>) -> String {
    match o {
        Operand::Copy(p) => format!("copy {}", place_str(tcx, body, p)),
        Operand::Move(p) => format!("move {}", place_str(tcx, body, p)),
        Operand::Constant(c) => const_str(tcx, c),
        _ => format!("{:?}", o),
    }
}

impl rustc_driver::Callbacks for Cb {
    fn after_crate_root_parsing(&mut self, _c: &rustc_interface::interface::Compiler, krate: &mut rustc_ast::Crate) -> Compilation {
        // pre-expansion attrs of struct fields
        fn walk(items: &[Box<rustc_ast::Item>], depth: usize) {
            for it in items {
                match &it.kind {
                    rustc_ast::ItemKind::Mod(_, ident, rustc_ast::ModKind::Loaded(inner, ..)) => { eprintln!("MOD {}", ident); walk(inner, depth+1); }
                    rustc_ast::ItemKind::Struct(ident, _, vd) => {
                        for f in vd.fields() {
                            for a in f.attrs.iter() {
                                if let rustc_ast::AttrKind::Normal(n) = &a.kind {
                                    let path = n.item.path.segments.iter().map(|s| s.ident.to_string()).collect::<Vec<_>>().join("::");
                                    if path == "arg" {
                                        eprintln!("FIELDATTR {}.{:?} #[{} ...]", ident, f.ident.map(|i| i.to_string()), path);
                                    }
                                }
                            }
                        }
                    }
                    _ => {}
                }
            }
        }
        walk(&krate.items, 0);
        Compilation::Continue
    }
    fn after_analysis<'tcx>(&mut self, _c: &rustc_interface::interface::Compiler, tcx: TyCtxt<'tcx>) -> Compilation {
        let want = std::env::var("DRV_FN").unwrap_or_default();
        for ldid in tcx.hir_body_owners() {
            let did = ldid.to_def_id();
            let kind = tcx.def_kind(did);
            if !matches!(kind, DefKind::Fn | DefKind::AssocFn | DefKind::Closure) { continue; }
            let name = tcx.def_path_str(did);
            if want.is_empty() || !name.contains(&want) { continue; }
            let body = tcx.optimized_mir(did);
            let typing_env = ty::TypingEnv::post_analysis(tcx, did);
            println!("=== {} [{:?}] span={:?}", name, kind, tcx.def_span(did));
            for (bb, data) in body.basic_blocks.iter_enumerated() {
                if data.is_cleanup { continue; }
                for st in &data.statements {
                    if let StatementKind::Assign(b) = &st.kind {
                        let (pl, rv) = &**b;
                        let r = match rv {
                            Rvalue::Use(o, _) => format!("use {}", op_str(tcx, body, o)),
                            Rvalue::Ref(_, bk, p) => format!("ref[{:?}] {}", bk, place_str(tcx, body, p)),
                            Rvalue::BinaryOp(op, ab) => format!("binop {:?} {} , {}", op, op_str(tcx, body, &ab.0), op_str(tcx, body, &ab.1)),
                            Rvalue::Aggregate(k, ops) => format!("aggregate {:?} [{}]", k, ops.iter().map(|o| op_str(tcx, body, o)).collect::<Vec<_>>().join(" ; ")),
                            Rvalue::Discriminant(p) => format!("discr {}", place_str(tcx, body, p)),
                            other => format!("OTHER {:?}", other),
                        };
                        println!("  {:?}: {} = {}", bb, place_str(tcx, body, pl), r);
                    }
                }
                if let Some(term) = &data.terminator {
                    match &term.kind {
                        TerminatorKind::Call { func, args, destination, target, .. } => {
                            let mut callee = String::from("?");
                            if let Operand::Constant(c) = func {
                                if let ty::FnDef(cd, gargs) = c.const_.ty().kind() {
                                    let r = ty::Instance::try_resolve(tcx, typing_env, *cd, gargs);
                                    callee = match r { Ok(Some(i)) => format!("{} RESOLVED {} <{}>", tcx.def_path_str(*cd), tcx.def_path_str(i.def_id()), i.args.iter().map(|a| format!("{}", a)).collect::<Vec<_>>().join(", ")), _ => format!("{} UNRESOLVED <{}>", tcx.def_path_str(*cd), gargs.iter().map(|a| format!("{}", a)).collect::<Vec<_>>().join(", ")) };
                                }
                            }
                            println!("  {:?}: CALL {} = {} ({}) -> {:?}", bb, place_str(tcx, body, destination), callee, args.iter().map(|a| op_str(tcx, body, &a.node)).collect::<Vec<_>>().join(" ; "), target);
                        }
                        TerminatorKind::SwitchInt { discr, targets } => {
                            println!("  {:?}: SWITCH {} -> {:?} otherwise {:?}", bb, op_str(tcx, body, discr), targets.iter().collect::<Vec<_>>(), targets.otherwise());
                        }
                        TerminatorKind::Assert { cond, expected, msg, target, .. } => {
                            println!("  {:?}: ASSERT {} == {} kind={:?} -> {:?}", bb, op_str(tcx, body, cond), expected, std::mem::discriminant(&**msg), target);
                        }
                        other => println!("  {:?}: TERM {:?}", bb, std::mem::discriminant(other)),
                    }
                }
            }
        }
        Compilation::Continue
    }
}
fn main() {
    let mut args: Vec<String> = std::env::args().collect();
    args.remove(1);
    rustc_driver::run_compiler(&args, &mut Cb);
}
