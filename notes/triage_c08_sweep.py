# Triage only (NOT a check): sweep used in the design round to confirm F12/F13 against a built binary.
# Set G to the grex binary to test.
import subprocess, itertools, re, sys
G='/tmp/scratch/fixtest_t/debug/grex'
words=[''.join(p) for n in range(1,4) for p in itertools.product('ab',repeat=n)]
import random
random.seed(1)
found=0
def check(tcs, flags):
    global found
    out=subprocess.run([G,*flags,*tcs],capture_output=True,text=True).stdout.rstrip('\n')
    try: rx=re.compile(out)
    except re.error: return
    for t in tcs:
        m=rx.search(t)
        if not m or m.span()!=(0,len(t)):
            print(flags, tcs, out, 'on', t, '->', m and m.group(0)); found+=1; return
for k in (2,3,4):
    combos=list(itertools.combinations(words,k))
    random.shuffle(combos)
    for tcs in combos[:400]:
        for flags in (['--no-end-anchor'],['--no-start-anchor']):
            check(list(tcs),flags)
        if found>=6: sys.exit()
print('found',found)
