#!/usr/bin/env python3
"""Store a confirmed seeded change under /verif/seeded/<ID>/ and record which checks report it.
usage: bin/store_seed.py <ID> <property> <needs_to_manifest> [<caught_by note>]   (reads /tmp/seed/<ID>/OUT)"""
import json
import os
import re
import shutil
import subprocess
import sys

VERIF = os.path.dirname(os.path.dirname(os.path.abspath(__file__)))


def main():
    sid, prop, needs = sys.argv[1:4]
    note = sys.argv[4] if len(sys.argv) > 4 else ""
    out = "/tmp/seed/%s/OUT" % sid
    dst = os.path.join(VERIF, "seeded", sid)
    os.makedirs(dst, exist_ok=True)
    for f in os.listdir(out):
        if os.path.isfile(os.path.join(out, f)):
            shutil.copy(os.path.join(out, f), os.path.join(dst, f))
    r = subprocess.run([sys.executable, os.path.join(VERIF, "bin", "seedcheck.py"), os.path.join(dst, "patch.diff")], capture_output=True, text=True)
    viol, nov, findings = [], [], []
    for l in r.stdout.splitlines():
        m = re.match(r"^(C\d+) (VIOLATION|NO-VERDICT|silent)$", l)
        if m:
            if m.group(2) == "VIOLATION":
                viol.append(m.group(1))
            elif m.group(2) == "NO-VERDICT":
                nov.append(m.group(1))
        elif l.strip().startswith("FINDING"):
            findings.append(l.strip()[:300])
    meta = {
        "breaks_property": prop,
        "origin": "written by an independent sub-agent (round %s) that saw only the property text, a target area and a scratch worktree of /repo at HEAD" % (sid[1] if sid[0] == "R" and sid[1] in "345678" else "2: algorithmic core"),
        "needs_to_manifest": needs,
        "confirmed": "bin/confirm_seed.sh %s in the agent's scratch worktree: pinned suite passes with the change; OUT/demo.rs as tests/seed_demo.rs fails with the change and passes without it" % sid,
        "checked_with": "bin/seedcheck.py seeded/%s/patch.diff (scratch copy of /repo with the patch; all 16 claimed checks)" % sid,
        "checks_reporting_violation": viol,
        "checks_without_verdict": nov,
        "caught_by": note,
        "findings": findings[:8],
    }
    json.dump(meta, open(os.path.join(dst, "meta.json"), "w"), indent=1, ensure_ascii=False)
    print(sid, "violations:", viol, "no-verdict:", nov)
    for f in findings[:4]:
        print("   ", f[:200])


if __name__ == "__main__":
    main()
