#!/usr/bin/env python3
"""Regenerates MANIFEST.json from the table below (kept valid against the schema at all times)."""
import json
import os

VERIF = os.path.dirname(os.path.dirname(os.path.abspath(__file__)))

TRUST = ("Trusted base: rustc's type checker, trait resolution and MIR lowering at -Zmir-opt-level=0 (nightly 1.97); the documented "
         "behaviour of dependencies named in the evidence file's assumptions; spec/*.json as a transcription of the public documentation. ")

CHECKS = {
    "C09": dict(
        category="other",
        text="Decided statically for all 1,112,064 scalar values: interval-set equality of grex's three range tables with the tables "
             "regex-syntax compiles for \\d/\\s/\\w, the wiring predicate->table (inclusive ranges, own parameter), and the closure's "
             "decision table against the documented precedence on every feasible valuation (exhaustive over finite tables).",
        design_ref="DESIGN.md §4 C09",
        note=TRUST + "Does not execute grex; the language-level consequence (converted pattern still matches) additionally relies on the "
                     "token surviving trie/minimisation/printing, which is not decided.",
        technique="static analysis: constant-table interval equality + MIR wiring rules + path-splitting constant propagation",
    ),
    "C03": dict(
        category="other",
        text="Substitution clause decided exactly: the closure's decision table (ccp, 64 setting subsets x 4 feasible memberships) equals the "
             "documented precedence; captured variables are traced to the settings written by the public setters; the pass runs whenever a class "
             "option is on; the char handed to the predicates ranges over all chars of every stored string (CLS-4); no memo table shares work between test cases with a lossy key (MEMO-1); class tokens keep their backslash while literal backslashes are escaped for every entry (ESC-1/2) and never share a trie edge with literal text (LBL-2); the union drops a class token only for one that includes it per a table verified against the Unicode tables (UNI-4). The language clause (tokens survive the automaton pipeline) is not decided.",
        design_ref="DESIGN.md §4 C03",
        note=TRUST + "Necessary-and-sufficient for the per-code-point substitution, necessary only for the language statement.",
        technique="static analysis: path-splitting constant propagation + control dependence + setter effect summaries",
    ),
    "C10": dict(
        category="other",
        text="Every source of nondeterminism of safe Rust is shown absent or neutralised in the functions reachable from build(): hash-order taint "
             "(type-recognised unordered iterators and all their consumers), ambient sources (time/env/thread/fs/rand/addresses), statics, unsafe; "
             "input canonicalisation (sort, dedup, total-order comparator before any consumer); call history (settings by shared reference to a Freeze "
             "type, write-only setters, who-may-write), no mutable global (lazily initialised statics with a Mutex/RefCell/atomic payload included) and no memo table keyed by less than what it memoises (MEMO-1); build() leaves the builder's state as it found it up to canonicalisation (HIS-2); thorough adds compile-pass/compile_fail witnesses.",
        design_ref="DESIGN.md §4 C10",
        note=TRUST + "Determinism of the dependencies (petgraph, ndarray, itertools, regex) is assumed; one audited exception table entry "
                     "(regrouped sort in create_ranges_of_repetitions) is fingerprinted structurally.",
        technique="static analysis: order-taint over MIR types, effect summaries via constant propagation, dominators, compile_fail witnesses",
    ),
    "C07": dict(
        category="other",
        text="Panic discipline decided statically: the three documented panics are exact (single guard, documented message, other path writes); no explicit "
             "panic and no unwrap of a run-time Result is reachable from build(); the two bounds guards dominate their sites; an inventory of the remaining "
             "panic-capable sites is evidence only; the automaton's graph index type is at least 32 bits wide (PAN-6); no overflow-checked arithmetic on a threshold setting (PAN-7); escaping descends into nested repetitions on every path (ESC-3), the printer uses a grapheme's own text only where it was escaped (ESC-4), the literal printer escapes on every path (ESCP-2) and verbose mode rewrites every ignored character also inside bracket classes (VWS-1/2). That the printed pattern is accepted by the regex crate is not decided.",
        design_ref="DESIGN.md §4 C07",
        note=TRUST + "Option::unwrap/indexing/arithmetic sites reachable from build() are enumerated, not proven unreachable.",
        technique="static analysis: call-graph reachability, constant propagation on the documented panics, dominator-based guard rules",
    ),
    "C08": dict(
        category="other",
        text="Anchor emission decided exactly by constant propagation over the printer (all abstract paths: '^'/'$' iff enabled, nothing rewrites them); "
             "the search clause is decided only as mechanism: alternations are always ordered longest-first, the order self-check covers every "
             "configuration without '$' and judges the match extent, all stages of the entry function consume the same converted clusters (PIPE-1) and the one "
             "alternation that is not self-checked afterwards is ordered by matched chars (ALT-2), and the self-check examines every test case (SCK-3); where test cases and clusters are paired by position both sides are element-wise images of one test-case vector (ZIP-1).",
        design_ref="DESIGN.md §4 C08",
        note=TRUST + "That every search spans the whole test case for all inputs is not decided (needs the run-time automaton).",
        technique="static analysis: path-splitting constant propagation with string templates, control dependence, provenance of the self-check verdict",
    ),
    "C13": dict(
        category="other",
        text="Decided structurally: repetition conversion is reachable only under its setting; Grapheme constructors write constant counts except the "
             "two audited callers; the count filter is the strict comparison with minimum_repetitions and the splice is dominated by the "
             "minimum-substring-length test; nested conversion receives the same settings.",
        design_ref="DESIGN.md §4 C13",
        note=TRUST + "Arithmetic of counts and ranges for every input is not decided.",
        technique="static analysis: guarded call-graph reachability, origin trees of guard conditions, who-may-call",
    ),
    "C12": dict(
        category="other",
        text="Wiring decided exactly: each of the 17 setter calls is control dependent on the Cli field of its documented flag (pre-expansion attributes), "
             "threshold/surrogate values come from their own flags, stdout receives build()'s value plus newline, exit 1 only after stderr; the three "
             "line channels use lines() with identity maps; the zero-rejecting value parser guards both thresholds; no panic-on-unusable-input construct "
             "is reachable from main; the text of a channel is not rewritten before it is split (CLI-3 producer side); the only clap relations between arguments are the documented ones (CLI-6); no input channel decodes bytes lossily (CLI-8); every used producer of the settings yields the documented defaults, so from_file starts like from (DEF-1).",
        design_ref="DESIGN.md §4 C12",
        note=TRUST + "clap's own parsing and the operating system's delivery of stdout/stderr are trusted; actual process output is not observed.",
        technique="static analysis: control dependence against pre-expansion clap attributes, origin trees of printed values, constant propagation of the value parser",
    ),
    "C01": dict(
        category="other",
        text="Necessary conditions only: finality is transferred per state when the automaton is rebuilt and every inserted test case marks its last "
             "state final; every regex metacharacter (oracle: regex_syntax::is_meta_character of the locked version) is escaped per occurrence in literals "
             "and in bracket classes; the single-code-point test that licenses bracket classes and group omission counts chars and measures every unit (CNT-1/2); the partition refinement has the shape of Hopcroft's algorithm and runs to the fixpoint and splits a block only into two non-empty halves (MIN-1..7); reader and remover of common prefixes/suffixes agree on positions (SUB-1); the union's necessary conditions hold (UNI-1..4: class merge only for single code points, `x?` from the non-empty side, prefix/suffix re-attached on the right side, an alternative dropped only when absent, equal or included per a verified class table); the first char of a grapheme stands for it only under a single-code-point test (FCH-1); the single-code-point predicate is exact (SCP-1), the trie lookup reuses an edge only under equal maxima (LBL-3), build() does not consume the test cases (HIS-2); a grapheme's own text is printed only where it was escaped and the literal printer escapes on every path (ESC-4, ESCP-2); under (?x) every ignored character is rewritten in literals and in bracket classes (VWS-1/2); class tokens are substituted only per tables equal to the engine's (TAB-1/2, CLS-1); edge labels are identified by their entries, not their joined text (LBL-1/2), escaping reaches every entry and every nesting level on every path (ESC-2/3). Breaking any of them makes some test case unmatched or the pattern invalid. That minimisation, elimination and "
             "printing preserve membership is not decided.",
        design_ref="DESIGN.md §4 C01",
        note=TRUST + "One genuine defect is recorded as a known finding (empty string loses finality: FIN-1) because its repair contradicts three pinned tests.",
        technique="static analysis: loop/dominator rules on the automaton code, constant-table coverage against the dependency's metacharacter switch",
    ),
    "C05": dict(
        category="other",
        text="Notation clauses decided by constant propagation over the quantifier printer on all abstract paths ({min,max} iff min<max, {min} iff min>1, group "
             "only around quantified multi-code-point units, decision not taken on the printed form; an operand under a quantifier keeps its outer group: PRC-2; entries of a grapheme are only mapped element-wise: CHR-1; escaping descends as deep as the printer: ESC-3; own text of a unit with nested repetitions is never printed (it is not escaped): ESC-4; no memo table with a lossy key: MEMO-1), the label guard of the minimiser, and trie-edge "
             "immutability during insertion (today violated: known finding). Language equality with/without the option is not decided.",
        design_ref="DESIGN.md §4 C05",
        note=TRUST + "TRI-1 is a genuine defect recorded as a known finding (no small repair).",
        technique="static analysis: path-splitting constant propagation with string templates, call-graph reachability, dominating-edge rule",
    ),
    "C11": dict(
        category="other",
        text="Constant and structural clauses: the set of code points sent to the surrogate helper is exactly U+10000..=U+10FFFF (read from the range constant), the "
             "per-character dispatch is ASCII/identity, astral+surrogates/helper (\\u{hex} per UTF-16 unit), else char::escape_unicode; every literal is escaped on "
             "every path before printing with the Literal's own flags; the non-ASCII pass escapes char by char only (ESCP-3); value-flow shows both flags only ever carry their own setting, also in the recursive call (PLB-1); an escaped "
             "multi-sequence unit keeps its group under a quantifier (PRC-2).",
        design_ref="DESIGN.md §4 C11",
        note=TRUST + "Pure-ASCII output for all inputs, re-decodability and language equality are not decided.",
        technique="static analysis: constant propagation of the dispatch, interval reading of range constants, must-pass-through on the literal printer",
    ),
    "C06": dict(
        category="other",
        text="Structural clauses: on every verbose path each character ignored under (?x) is rewritten to an escape denoting exactly that character; the "
             "(?x)/(?ix) header is exact; in each group-printing function one boolean decides the group kind on all paths; value-flow provenance shows "
             "that every capture / line-break / colour / escape / surrogate site can only receive its own setting (no crossed positional flags); the counter behind "
             "the single-code-point test measures chars of every unit (CNT-1/2), with or without escaping; the verbose and the plain arm of every component rendering agree up to line breaks (VRB-1); the first char of a grapheme stands for it only under a single-code-point test (FCH-1).",
        design_ref="DESIGN.md §4 C06",
        note=TRUST + "Language equality under each option is not decided; the indenter's content preservation is assumed.",
        technique="static analysis: constant propagation with string templates (loops over constant arrays unrolled), interprocedural value-flow provenance",
    ),
    "C04": dict(
        category="other",
        text="Decided: the (?i) flag is emitted exactly when requested (all abstract paths of the printer); lower-casing happens only under the setting, only when "
             "the char count is preserved, and - since std's and regex-syntax's case tables differ on 55 scalars in this toolchain (read from both tables) - "
             "only when an engine round-trip validates it. That the language is exactly the fold-closure of the test cases is not decided.",
        design_ref="DESIGN.md §4 C04",
        note=TRUST + "std's lower-casing table is parsed from the nightly rust-src (stable ships no source); regex-syntax's folding table is the evaluated constant of the locked version.",
        technique="static analysis: constant propagation, control dependence, exact comparison of two case-mapping tables",
    ),
    "C02": dict(
        category="other",
        text="Printer clauses only (each necessary: breaking one yields ^a|b$-style over-matching for some input): precedence table order, group iff "
             "lower precedence and not a single code point with the right operands, outer group iff alternation - decided on all abstract paths; class ranges only over "
             "consecutive scalars; inside union(): class merge only under single-code-point guards, `x?` only from the non-empty side and never `*` (abstract paths of union), "
             "prefix/suffix re-attached on the right side; the state elimination has the schema of the algebraic method; the single-code-point counter counts chars; concatenate keeps operand order (CON-1/REV-1); the equation system is the automaton (BRZ-0: rows by traversal from the initial state, b[i]=eps iff final, a[i,pos(target)]=label, no accumulator across columns); the class printer emits members only (TOK-1); a path of union() that returns one alternative only knows the other absent, equal or included (UNI-4, inclusion table verified against the Unicode tables); first char of a grapheme only under a single-code-point test (FCH-1); MIN-1..6 and SUB-1 as in C01. Whether the "
             "minimiser, union() factoring and remove_common_substring preserve the language is NOT decided.",
        design_ref="DESIGN.md §4 C02",
        note=TRUST + "The algorithmic core of exactness is out of reach of this family; see DESIGN.md §0.",
        technique="static analysis: path-splitting constant propagation over the printers",
    ),
    "C15": dict(
        category="other",
        text="Component-level decision: for all 18 component variants and flag valuations the coloured rendering minus SGR sequences equals the plain rendering "
             "(string templates); the SGR syntax written agrees with the pattern that strips it; the indenter decides on the colour-stripped line; every colour "
             "argument comes from the colour setting only; no coloured rendering puts a line break inside a colour span (COL-4: the indenter drops empty lines before stripping); every rewrite pass over the assembled output is blind to colour codes (COL-5).",
        design_ref="DESIGN.md §4 C15",
        note=TRUST + "Whole-output equality additionally relies on the component decomposition of the printers (PLB-1) and is not executed.",
        technique="static analysis: sibling-implementation agreement by constant propagation with string templates; provenance of guard predicates; value flow",
    ),
    "C14": dict(
        category="other",
        text="Delegation decided on the type-checked python feature build: each library setter has a sibling exported under the same Python name with an equal "
             "effect summary; thresholds and the constructor raise ValueError with the library's messages exactly when the library would panic; build returns the "
             "library's pattern, rewritten iff escaping is on; the rewriting is applied under every setting that makes the library print \\u{..} (escaping; verbose mode: PYW-4); sibling setters have no other effects than the library's; every escape width the Rust side can emit is consumed by the rewriter and becomes \\u+4 / \\U+8 digits; an escaped backslash is consumed by an alternative of its own and returned unchanged (PYW-5).",
        design_ref="DESIGN.md §4 C14",
        note=TRUST + "pyo3's generated glue and CPython's re module are trusted; nothing is executed.",
        technique="static analysis: effect-summary agreement of sibling implementations, producer/consumer agreement on constant patterns and format templates",
    ),
    "C17": dict(
        category="other",
        text="Delegation decided on src/wasm.rs type-checked for the host: all 16 setters have camelCase siblings with equal effect summaries returning a clone; "
             "thresholds store only values >= 1 else Err(JsValue(library message)); from() reaches the panicking library constructor only for a non-empty list and hands it every string of the JS array "
             "(one as_string conversion per element, nothing filtered: WSM-5); build() returns the library's build() unchanged.",
        design_ref="DESIGN.md §4 C17",
        note=TRUST + "No wasm32 target exists in the sandbox: the bodies are analysed under the host target; #[wasm_bindgen] glue is trusted.",
        technique="static analysis: effect-summary agreement of sibling implementations via constant propagation",
    ),
}

NOT_APPLICABLE = {
    "C16": "Every clause quantifies over the automaton built at run time (language of the trie / minimised graph / expression, absence of "
           "equivalent states); no structural clause decides it and the only necessary conditions (finality transfer, label guard, trie-edge "
           "immutability) are claimed under C01/C05. A hook-based stage attribution would be an executing technique, excluded here.",
}

PENDING = "check not built yet in this session (planned rules: DESIGN.md §4)"


def main():
    ids = [json.loads(l)["id"] for l in open(os.path.join(VERIF, "properties.jsonl"))]
    checks = []
    for pid in ids:
        c = CHECKS.get(pid)
        if not c:
            continue
        checks.append({
            "property_id": pid,
            "quick_cmd": "bin/check %s --tier quick" % pid,
            "thorough_cmd": "bin/check %s --tier thorough" % pid,
            "evidence_file": "evidence/%s.json" % pid,
            "replay_cmd_template": "bin/check %s --replay {path}" % pid,
            "engine": "grexfacts+sa",
            "level_claimed": {"category": c["category"], "text": c["text"], "design_ref": c["design_ref"]},
            "level_note": c["note"],
            "technique": c["technique"],
        })
    na = []
    for pid in ids:
        if pid in CHECKS:
            continue
        na.append({"property_id": pid, "reason": NOT_APPLICABLE.get(pid, PENDING)})
    m = {
        "version": 1,
        "setup_cmd": "cd driver && cargo build --offline",
        "hooks": {
            "guard": "grex_verif",
            "enable": "none needed: the checks read /repo's working tree through the compiler (cargo +nightly check with the grexfacts "
                      "driver as RUSTC_WRAPPER); there are no instrumentation hooks in /repo",
            "baseline_off_cmd": "rm -f /repo/tests/property_tests.proptest-regressions; cd /repo && cargo test --workspace --no-fail-fast --offline",
            "source_commits": [],
            "add_only": True,
        },
        "engines": [
            {"name": "grexfacts", "path": "driver/", "serves_properties": sorted(CHECKS),
             "kind_free_text": "rustc_private fact extractor: items, ADTs, evaluated constants, MIR with resolved callees, pre-expansion attributes (no rules)"},
            {"name": "sa", "path": "sa/", "serves_properties": sorted(CHECKS),
             "kind_free_text": "Python analysis engines over the facts: CFG/dominators/control dependence, origin trees, path-splitting constant "
                               "propagation with string templates, interval-set algebra; rules/ holds one module per property"},
        ],
        "checks": checks,
        "notes": "Static analysis only (no execution of /repo). Exit 2 = infrastructure failure (no verdict). See DESIGN.md.",
        "not_applicable": na,
    }
    with open(os.path.join(VERIF, "MANIFEST.json"), "w") as f:
        json.dump(m, f, indent=1)


if __name__ == "__main__":
    main()
