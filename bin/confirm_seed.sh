#!/bin/bash
# Re-confirms a sub-agent's seeded change in its scratch worktree /tmp/seed/<ID>:
#  (1) suite passes with the change, (2) demo fails with it, (3) demo passes without it.
# usage: bin/confirm_seed.sh <ID>     prints SUITE=ok|FAIL DEMO_WITH=fail|PASS DEMO_WITHOUT=pass|FAIL
ID=$1; WT=/tmp/seed/$ID; OUT=$WT/OUT
cd $WT || exit 2
export CARGO_TARGET_DIR=$WT/target CARGO_NET_OFFLINE=true
git checkout -q -- src 2>/dev/null; rm -f tests/seed_demo.rs tests/property_tests.proptest-regressions
git apply $OUT/patch.diff || { echo "PATCH does not apply"; exit 2; }
S=$(cargo test --offline 2>&1 | grep -E "^test result|FAILED|panicked")
if echo "$S" | grep -qE "FAILED|panicked" || [ $(echo "$S" | grep -c "test result: ok") -lt 8 ]; then echo "SUITE=FAIL"; echo "$S" | head -5; else echo "SUITE=ok"; fi
if [ -f $OUT/demo.rs ]; then
  cp $OUT/demo.rs tests/seed_demo.rs
  W=$(cargo test --offline --test seed_demo 2>&1 | grep -E "^test result")
  echo "DEMO_WITH: $W"
  git checkout -q -- src
  N=$(cargo test --offline --test seed_demo 2>&1 | grep -E "^test result")
  echo "DEMO_WITHOUT: $N"
  rm -f tests/seed_demo.rs
else
  echo "non-Rust demo: $(ls $OUT)"
fi
git checkout -q -- src
