#!/bin/bash
# Runs the pinned suite of /repo's *working tree* on a scratch copy (never inside /repo:
# a failing proptest would drop a git-ignored regressions file there). Usage: bin/repo-suite.sh [keep]
set -u
S=/tmp/grex-suite
mkdir -p $S/copy
rsync -a --delete --exclude target --exclude .git /repo/ $S/copy/
rm -f $S/copy/tests/property_tests.proptest-regressions
cd $S/copy
CARGO_TARGET_DIR=$S/target CARGO_NET_OFFLINE=true cargo test --workspace --no-fail-fast --offline 2>&1 | grep -E "^test result|FAILED|failed|panicked|error(\[|:)" | head -40
rc=${PIPESTATUS[0]}
[ "${1:-}" = keep ] || rm -rf $S/copy
exit $rc
