#!/usr/bin/env python3
"""Run checks against a patch on a scratch copy of /repo (never touches /repo).
usage: bin/seedcheck.py <patch.diff> [PROP ...]   (default: all claimed properties)"""
import concurrent.futures
import json
import os
import re
import shutil
import subprocess
import sys
import tempfile

VERIF = os.path.dirname(os.path.dirname(os.path.abspath(__file__)))


def main():
    patch = os.path.abspath(sys.argv[1])
    props = sys.argv[2:] or [c["property_id"] for c in json.load(open(os.path.join(VERIF, "MANIFEST.json")))["checks"]]
    tmp = tempfile.mkdtemp(prefix="grexverif-seed-")
    try:
        copy = os.path.join(tmp, "repo")
        shutil.copytree("/repo", copy, ignore=shutil.ignore_patterns("target", ".git", "*.gif", "*.png", "*.jpg"))
        r = subprocess.run(["git", "apply", "--unsafe-paths", "--directory=" + copy, patch], capture_output=True, text=True, cwd="/")
        if r.returncode != 0:
            r = subprocess.run(["patch", "-p1", "-d", copy, "-i", patch], capture_output=True, text=True)
            if r.returncode != 0:
                print("patch does not apply:", r.stdout[-400:], r.stderr[-400:])
                return 2
        env = dict(os.environ, GREX_REPO=copy, GREX_EVIDENCE_DIR=os.path.join(tmp, "ev"))

        def one(p):
            rr = subprocess.run([os.path.join(VERIF, "bin", "check"), p], env=env, capture_output=True, text=True)
            return p, rr.returncode, [l for l in rr.stdout.splitlines() if l.startswith(("FINDING", "KNOWN", "INFRA", "NO-VERDICT"))]
        fired = 0
        with concurrent.futures.ThreadPoolExecutor(max_workers=6) as ex:
            for p, rc, lines in ex.map(one, props):
                mark = {0: "silent", 1: "VIOLATION", 2: "NO-VERDICT"}.get(rc, str(rc))
                print("%s %s" % (p, mark))
                for l in lines:
                    if not l.startswith("KNOWN"):
                        print("    " + l[:400])
                fired += rc == 1
        print("%d of %d checks report a violation" % (fired, len(props)))
        return 0
    finally:
        shutil.rmtree(tmp, ignore_errors=True)


if __name__ == "__main__":
    sys.exit(main())
