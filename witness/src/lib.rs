//! Type-level witnesses for C10 (THR-1). Every `compile_fail` block has a compiling twin that
//! differs only by the offending construct, so a witness cannot pass merely because a path is wrong.
//! The twins are `no_run`: they are type-checked, never executed.

/// The builder can be sent to, shared with and cloned for other threads.
/// ```no_run
/// fn assert_traits<T: Send + Sync + Clone + 'static>() {}
/// assert_traits::<grex::RegExpBuilder>();
/// ```
pub struct SendSyncClone;

/// `build()` needs exclusive access: it cannot be called through a shared reference ...
/// ```compile_fail,E0596
/// let b = grex::RegExpBuilder::from(&["a"]);
/// let r = &b;
/// r.build();
/// ```
/// ... but can through an exclusive one (twin).
/// ```no_run
/// let mut b = grex::RegExpBuilder::from(&["a"]);
/// let r = &mut b;
/// r.build();
/// ```
pub struct BuildNeedsMut;

/// Two threads cannot build from the same builder at once ...
/// ```compile_fail,E0499
/// let mut b = grex::RegExpBuilder::from(&["a"]);
/// std::thread::scope(|s| {
///     s.spawn(|| { b.build(); });
///     s.spawn(|| { b.build(); });
/// });
/// ```
/// ... each needs its own clone (twin).
/// ```no_run
/// let mut b = grex::RegExpBuilder::from(&["a"]);
/// let mut c = b.clone();
/// std::thread::scope(|s| {
///     s.spawn(|| { b.build(); });
///     s.spawn(|| { c.build(); });
/// });
/// ```
pub struct NoConcurrentBuild;

/// Settings are reachable only through the setters: the fields are private ...
/// ```compile_fail,E0616
/// let b = grex::RegExpBuilder::from(&["a"]);
/// let _ = &b.config;
/// ```
/// ```compile_fail,E0616
/// let b = grex::RegExpBuilder::from(&["a"]);
/// let _ = &b.test_cases;
/// ```
/// ... and setters return the same builder for chaining (twin).
/// ```no_run
/// let mut b = grex::RegExpBuilder::from(&["a"]);
/// let _: &mut grex::RegExpBuilder = b.with_verbose_mode();
/// ```
pub struct PrivateState;
