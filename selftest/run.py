#!/usr/bin/env python3
"""Mutation self-check of the checker: every canned mutant of selftest/mutants.json that still applies to the current
/repo tree is applied to a scratch copy (never to /repo), the views are rebuilt from that copy (GREX_REPO) and the named
rule must fire for the named property; every neutral refactor must stay silent.  A canned edit that no longer applies
is skipped and listed, never an alarm.  Usage: selftest/run.py [-j N] [id ...]"""
import concurrent.futures
import json
import os
import re
import shutil
import subprocess
import sys
import tempfile

VERIF = os.path.dirname(os.path.dirname(os.path.abspath(__file__)))
REPO = os.environ.get("GREX_REPO", "/repo")


def run_one(m):
    tmp = tempfile.mkdtemp(prefix="grexverif-mut-")
    try:
        copy = os.path.join(tmp, "repo")
        shutil.copytree(REPO, copy, ignore=shutil.ignore_patterns("target", ".git", "*.gif", "*.png", "*.jpg"))
        if m.get("patch"):
            r = subprocess.run(["patch", "-p1", "-s", "-d", copy, "-i", os.path.join(VERIF, m["patch"])], capture_output=True, text=True)
            if r.returncode != 0:
                return m["id"], "skipped", "patch no longer applies", {}
        for e in m.get("edits", []):
            p = os.path.join(copy, e["file"])
            s = open(p).read()
            if s.count(e["old"]) < 1:
                return m["id"], "skipped", "edit no longer applies to %s" % e["file"], {}
            s = s.replace(e["old"], e["new"], 1)
            open(p, "w").write(s)
        env = dict(os.environ)
        env["GREX_REPO"] = copy
        env["GREX_EVIDENCE_DIR"] = os.path.join(tmp, "evidence")
        res = {}
        props = sorted({x["prop"] for x in m.get("expect", [])} | set(m.get("silent", [])) | set(m.get("no_violation", [])) | {x["prop"] for x in m.get("absent", [])})
        for prop in props:
            r = subprocess.run([os.path.join(VERIF, "bin", "check"), prop], env=env, capture_output=True, text=True)
            keys = re.findall(r"^FINDING (\S+)", r.stdout, re.M)
            nov = re.findall(r"^NO-VERDICT property=\S+ rule=(\S+)", r.stdout, re.M)
            res[prop] = {"rc": r.returncode, "rules": sorted({k.split(":")[0] for k in keys}), "out": r.stdout[-600:] if r.returncode == 2 else "", "noverdict": sorted(set(nov))}
        ok = True
        why = []
        if any(rr["rc"] == 2 and not rr["noverdict"] for rr in res.values()):
            return m["id"], "skipped", "infrastructure failure on the mutated copy (does not build?): %s" % " ".join(rr["out"][-160:].replace("\n", " ") for rr in res.values() if rr["rc"] == 2), res
        for x in m.get("expect", []):
            rr = res[x["prop"]]
            if rr["rc"] == 2:
                ok = False
                why.append("%s: NO-VERDICT by %s instead of a violation by %s" % (x["prop"], rr["noverdict"], x["rule"]))
            elif rr["rc"] != 1 or x["rule"] not in rr["rules"]:
                ok = False
                why.append("%s: expected %s to fire, got rc=%d rules=%s" % (x["prop"], x["rule"], rr["rc"], rr["rules"]))
        for prop in m.get("silent", []):
            rr = res[prop]
            if rr["rc"] != 0:
                ok = False
                why.append("%s: expected silence, got rc=%d rules=%s %s" % (prop, rr["rc"], rr["rules"], rr["out"][-200:].replace("\n", " ")))
        for prop in m.get("no_violation", []):
            # the property holds on this variant: no alarm (an honest NO-VERDICT is accepted)
            rr = res[prop]
            if rr["rc"] == 1:
                ok = False
                why.append("%s: expected no violation, got rules=%s" % (prop, rr["rules"]))
        for x in m.get("absent", []):
            rr = res[x["prop"]]
            if x["rule"] in rr["rules"]:
                ok = False
                why.append("%s: rule %s fired although this variant does not break it" % (x["prop"], x["rule"]))
        return m["id"], "ok" if ok else "FAILED", "; ".join(why), res
    finally:
        shutil.rmtree(tmp, ignore_errors=True)


def for_property(prop, jobs=10):
    """Run the mutants/refactors that concern one property; returns list of (id, status, why)."""
    ms = json.load(open(os.path.join(VERIF, "selftest", "mutants.json")))
    sel = []
    for m in ms:
        if any(x["prop"] == prop for x in m.get("expect", [])) or prop in m.get("silent", []) or prop in m.get("no_violation", []) \
                or any(x["prop"] == prop for x in m.get("absent", [])):
            m2 = dict(m)
            m2["expect"] = [x for x in m.get("expect", []) if x["prop"] == prop]
            m2["silent"] = [x for x in m.get("silent", []) if x == prop]
            m2["no_violation"] = [x for x in m.get("no_violation", []) if x == prop]
            m2["absent"] = [x for x in m.get("absent", []) if x["prop"] == prop]
            sel.append(m2)
    out = []
    with concurrent.futures.ThreadPoolExecutor(max_workers=jobs) as ex:
        for mid, status, why, res in ex.map(run_one, sel):
            out.append((mid, status, why))
    return out


def main():
    args = sys.argv[1:]
    jobs = 6
    if args and args[0] == "-j":
        jobs = int(args[1])
        args = args[2:]
    ms = json.load(open(os.path.join(VERIF, "selftest", "mutants.json")))
    if args:
        ms = [m for m in ms if m["id"] in args]
    bad = 0
    with concurrent.futures.ThreadPoolExecutor(max_workers=jobs) as ex:
        for mid, status, why, res in ex.map(run_one, ms):
            print("%-34s %-8s %s" % (mid, status, why))
            if status == "FAILED":
                bad += 1
    print("%d mutants/refactors, %d failed" % (len(ms), bad))
    return 1 if bad else 0


if __name__ == "__main__":
    sys.exit(main())
