// Structured dump of items, ADTs and MIR bodies.
use crate::json::J;
use crate::values;
use rustc_hir::def::DefKind;
use rustc_hir::def_id::{DefId, LocalDefId};
use rustc_middle::mir::{
    self, AggregateKind, AssertKind, Body, Const, Operand, Place, ProjectionElem, Rvalue,
    StatementKind, TerminatorKind, UnwindAction,
};
use rustc_middle::ty::{self, Ty, TyCtxt, TypeVisitableExt};
use rustc_span::Span;

pub fn span_json<'tcx>(tcx: TyCtxt<'tcx>, sp: Span) -> J {
    let sm = tcx.sess.source_map();
    let cs = sp.source_callsite();
    let lo = sm.lookup_char_pos(cs.lo());
    let hi = sm.lookup_char_pos(cs.hi());
    let file = match &lo.file.name {
        rustc_span::FileName::Real(r) => match r.local_path() {
            Some(p) => p.to_string_lossy().into_owned(),
            None => format!("{:?}", lo.file.name),
        },
        other => format!("{:?}", other),
    };
    J::kv(vec![
        ("file", J::Str(file)),
        ("line", J::UInt(lo.line as u128)),
        ("line_hi", J::UInt(hi.line as u128)),
    ])
}

fn line_of<'tcx>(tcx: TyCtxt<'tcx>, sp: Span) -> u128 {
    let sm = tcx.sess.source_map();
    sm.lookup_char_pos(sp.source_callsite().lo()).line as u128
}

fn macro_chain(sp: Span) -> J {
    // innermost first
    let mut v = vec![];
    for e in sp.macro_backtrace() {
        v.push(J::Str(e.kind.descr().to_string()));
        if v.len() > 6 {
            break;
        }
    }
    J::Arr(v)
}

pub fn adt_json<'tcx>(tcx: TyCtxt<'tcx>, did: DefId) -> J {
    let adt = tcx.adt_def(did);
    let mut o = J::obj();
    o.put("path", J::s(&tcx.def_path_str(did)));
    o.put(
        "kind",
        J::s(if adt.is_enum() {
            "enum"
        } else if adt.is_union() {
            "union"
        } else {
            "struct"
        }),
    );
    o.put("span", span_json(tcx, tcx.def_span(did)));
    let mut vs = vec![];
    for v in adt.variants().iter() {
        let mut fs = vec![];
        for f in v.fields.iter() {
            let fty = tcx.type_of(f.did).instantiate_identity().skip_norm_wip();
            fs.push(J::kv(vec![
                ("name", J::s(f.name.as_str())),
                ("ty", J::s(&fty.to_string())),
            ]));
        }
        vs.push(J::kv(vec![
            ("name", J::s(v.name.as_str())),
            ("fields", J::Arr(fs)),
        ]));
    }
    o.put("variants", J::Arr(vs));
    if !tcx.generics_of(did).requires_monomorphization(tcx) {
        let ty = tcx.type_of(did).instantiate_identity().skip_norm_wip();
        let te = ty::TypingEnv::fully_monomorphized();
        o.put("freeze", J::Bool(ty.is_freeze(tcx, te)));
    }
    o
}

pub fn unsafe_blocks<'tcx>(tcx: TyCtxt<'tcx>, ldid: LocalDefId, path: &str, out: &mut Vec<J>) {
    use rustc_hir::intravisit::{self, Visitor};
    struct V<'a, 'tcx> {
        tcx: TyCtxt<'tcx>,
        path: &'a str,
        out: &'a mut Vec<J>,
    }
    impl<'a, 'tcx> Visitor<'tcx> for V<'a, 'tcx> {
        fn visit_block(&mut self, b: &'tcx rustc_hir::Block<'tcx>) {
            if let rustc_hir::BlockCheckMode::UnsafeBlock(src) = b.rules {
                let user = matches!(src, rustc_hir::UnsafeSource::UserProvided);
                let mut o = J::obj();
                o.put("what", J::s("unsafe block"));
                o.put("path", J::s(self.path));
                o.put("user", J::Bool(user));
                o.put("exp", J::Bool(b.span.from_expansion()));
                o.put("macros", macro_chain(b.span));
                o.put("span", span_json(self.tcx, b.span));
                self.out.push(o);
            }
            intravisit::walk_block(self, b);
        }
    }
    if matches!(tcx.def_kind(ldid.to_def_id()), DefKind::Fn | DefKind::AssocFn) {
        let sig = tcx.fn_sig(ldid.to_def_id()).skip_binder().skip_binder();
        if sig.safety().is_unsafe() {
            let mut o = J::obj();
            o.put("what", J::s("unsafe fn"));
            o.put("path", J::s(path));
            o.put("exp", J::Bool(tcx.def_span(ldid.to_def_id()).from_expansion()));
            o.put("span", span_json(tcx, tcx.def_span(ldid.to_def_id())));
            out.push(o);
        }
    }
    if let Some(body) = tcx.hir_maybe_body_owned_by(ldid) {
        let mut v = V { tcx, path, out };
        v.visit_expr(body.value);
    }
}

struct Cx<'a, 'tcx> {
    tcx: TyCtxt<'tcx>,
    body: &'a Body<'tcx>,
    typing_env: ty::TypingEnv<'tcx>,
}

impl<'a, 'tcx> Cx<'a, 'tcx> {
    fn place(&self, p: &Place<'tcx>) -> J {
        let tcx = self.tcx;
        let mut proj = vec![];
        let mut pty = mir::PlaceTy::from_ty(self.body.local_decls[p.local].ty);
        for elem in p.projection.iter() {
            let e = match elem {
                ProjectionElem::Deref => J::kv(vec![("k", J::s("deref"))]),
                ProjectionElem::Field(f, _) => {
                    let mut o = J::kv(vec![("k", J::s("field")), ("i", J::UInt(f.as_usize() as u128))]);
                    match pty.ty.kind() {
                        ty::Adt(adt, _) => {
                            let v = pty.variant_index.unwrap_or(rustc_abi::FIRST_VARIANT);
                            let vd = adt.variant(v);
                            o.put("adt", J::s(&tcx.def_path_str(adt.did())));
                            o.put("variant", J::s(vd.name.as_str()));
                            o.put("name", J::s(vd.fields[f].name.as_str()));
                        }
                        ty::Closure(did, _) => {
                            if let Some(l) = did.as_local() {
                                let caps = tcx.closure_captures(l);
                                if let Some(c) = caps.get(f.as_usize()) {
                                    o.put("upvar", J::s(c.var_ident.name.as_str()));
                                }
                            }
                        }
                        _ => {}
                    }
                    o
                }
                ProjectionElem::Downcast(name, v) => J::kv(vec![
                    ("k", J::s("downcast")),
                    (
                        "variant",
                        match name {
                            Some(n) => J::s(n.as_str()),
                            None => J::Null,
                        },
                    ),
                    ("vi", J::UInt(v.as_usize() as u128)),
                ]),
                ProjectionElem::Index(l) => J::kv(vec![
                    ("k", J::s("index")),
                    ("l", J::UInt(l.as_usize() as u128)),
                ]),
                ProjectionElem::ConstantIndex { offset, from_end, .. } => J::kv(vec![
                    ("k", J::s("constindex")),
                    ("offset", J::UInt(offset as u128)),
                    ("from_end", J::Bool(from_end)),
                ]),
                ProjectionElem::Subslice { from, to, from_end } => J::kv(vec![
                    ("k", J::s("subslice")),
                    ("from", J::UInt(from as u128)),
                    ("to", J::UInt(to as u128)),
                    ("from_end", J::Bool(from_end)),
                ]),
                other => J::kv(vec![("k", J::s("other")), ("dbg", J::Str(format!("{:?}", other)))]),
            };
            proj.push(e);
            pty = pty.projection_ty(tcx, elem);
        }
        J::kv(vec![
            ("l", J::UInt(p.local.as_usize() as u128)),
            ("proj", J::Arr(proj)),
            ("ty", J::Str(pty.ty.to_string())),
        ])
    }

    fn constant(&self, c: &mir::ConstOperand<'tcx>) -> J {
        let tcx = self.tcx;
        match c.const_ {
            Const::Unevaluated(uv, ty) => {
                let mut o = J::kv(vec![
                    ("t", J::s("uneval")),
                    ("path", J::s(&tcx.def_path_str(uv.def))),
                    (
                        "promoted",
                        match uv.promoted {
                            Some(p) => J::UInt(p.as_usize() as u128),
                            None => J::Null,
                        },
                    ),
                    ("ty", J::s(&ty.to_string())),
                ]);
                if !uv.args.iter().any(|a| a.has_param()) {
                    if let Ok(v) = tcx.const_eval_resolve(self.typing_env, uv, rustc_span::DUMMY_SP) {
                        o.put("value", values::read_const(tcx, v, ty, 0));
                    }
                }
                o
            }
            Const::Val(val, ty) => values::read_const(tcx, val, ty, 0),
            Const::Ty(t, c2) => {
                // type-level constant (e.g. the bounds of a range pattern): a scalar leaf is an ordinary value
                if let Some(si) = c2.try_to_value().and_then(|v| v.try_to_leaf()) {
                    values::read_const(tcx, rustc_middle::mir::ConstValue::Scalar(rustc_middle::mir::interpret::Scalar::Int(si)), t, 0)
                } else {
                    J::kv(vec![
                        ("t", J::s("tyconst")),
                        ("dbg", J::Str(format!("{:?} {:?}", t, c2))),
                    ])
                }
            }
        }
    }

    fn operand(&self, o: &Operand<'tcx>) -> J {
        match o {
            Operand::Copy(p) => J::kv(vec![("k", J::s("copy")), ("place", self.place(p))]),
            Operand::Move(p) => J::kv(vec![("k", J::s("move")), ("place", self.place(p))]),
            Operand::Constant(c) => J::kv(vec![("k", J::s("const")), ("c", self.constant(c))]),
            #[allow(unreachable_patterns)]
            other => J::kv(vec![("k", J::s("other")), ("dbg", J::Str(format!("{:?}", other)))]),
        }
    }

    fn rvalue(&self, rv: &Rvalue<'tcx>) -> J {
        let tcx = self.tcx;
        match rv {
            Rvalue::Use(o, ..) => J::kv(vec![("k", J::s("use")), ("op", self.operand(o))]),
            Rvalue::Ref(_, bk, p) => J::kv(vec![
                ("k", J::s("ref")),
                ("mut", J::Bool(matches!(bk, mir::BorrowKind::Mut { .. }))),
                ("place", self.place(p)),
            ]),
            Rvalue::RawPtr(_, p) => J::kv(vec![("k", J::s("rawptr")), ("place", self.place(p))]),
            Rvalue::BinaryOp(op, box (a, b)) => J::kv(vec![
                ("k", J::s("binop")),
                ("op", J::Str(format!("{:?}", op))),
                ("a", self.operand(a)),
                ("b", self.operand(b)),
            ]),
            Rvalue::UnaryOp(op, a) => J::kv(vec![
                ("k", J::s("unop")),
                ("op", J::Str(format!("{:?}", op))),
                ("a", self.operand(a)),
            ]),
            Rvalue::Cast(kind, a, ty) => J::kv(vec![
                ("k", J::s("cast")),
                ("kind", J::Str(format!("{:?}", kind))),
                ("a", self.operand(a)),
                ("ty", J::Str(ty.to_string())),
            ]),
            Rvalue::Discriminant(p) => J::kv(vec![("k", J::s("discr")), ("place", self.place(p))]),
            Rvalue::Repeat(a, n) => J::kv(vec![
                ("k", J::s("repeat")),
                ("a", self.operand(a)),
                ("n", J::Str(format!("{:?}", n))),
            ]),
            Rvalue::Aggregate(box kind, ops) => {
                let mut o = J::kv(vec![("k", J::s("aggregate"))]);
                match kind {
                    AggregateKind::Array(t) => {
                        o.put("agg", J::s("array"));
                        o.put("elem_ty", J::Str(t.to_string()));
                    }
                    AggregateKind::Tuple => o.put("agg", J::s("tuple")),
                    AggregateKind::Adt(did, vi, _, _, active) => {
                        let adt = tcx.adt_def(*did);
                        let vd = adt.variant(*vi);
                        o.put("agg", J::s("adt"));
                        o.put("adt", J::s(&tcx.def_path_str(*did)));
                        o.put("variant", J::s(vd.name.as_str()));
                        o.put("vi", J::UInt(vi.as_usize() as u128));
                        o.put("is_enum", J::Bool(adt.is_enum()));
                        o.put(
                            "fields",
                            J::Arr(vd.fields.iter().map(|f| J::s(f.name.as_str())).collect()),
                        );
                        if let Some(a) = active {
                            o.put("active_field", J::UInt(a.as_usize() as u128));
                        }
                    }
                    AggregateKind::Closure(did, _) => {
                        o.put("agg", J::s("closure"));
                        o.put("closure", J::s(&tcx.def_path_str(*did)));
                    }
                    other => {
                        o.put("agg", J::s("other"));
                        o.put("dbg", J::Str(format!("{:?}", other)));
                    }
                }
                o.put("ops", J::Arr(ops.iter().map(|x| self.operand(x)).collect()));
                o
            }
            other => J::kv(vec![("k", J::s("other")), ("dbg", J::Str(format!("{:?}", other)))]),
        }
    }

    fn callee(&self, func: &Operand<'tcx>) -> J {
        let tcx = self.tcx;
        if let Operand::Constant(c) = func {
            if let ty::FnDef(cd, gargs) = c.const_.ty().kind() {
                let mut o = J::obj();
                o.put("decl", J::s(&tcx.def_path_str(*cd)));
                o.put("args", J::Arr(gargs.iter().map(|a| J::Str(a.to_string())).collect()));
                o.put("decl_local", J::Bool(cd.is_local()));
                match ty::Instance::try_resolve(tcx, self.typing_env, *cd, gargs) {
                    Ok(Some(i)) => {
                        let rd = i.def_id();
                        o.put("res", J::s(&tcx.def_path_str(rd)));
                        o.put("res_args", J::Arr(i.args.iter().map(|a| J::Str(a.to_string())).collect()));
                        o.put("res_local", J::Bool(rd.is_local()));
                        o.put(
                            "res_kind",
                            J::s(match i.def {
                                ty::InstanceKind::Item(_) => "item",
                                ty::InstanceKind::Virtual(..) => "virtual",
                                ty::InstanceKind::ClosureOnceShim { .. } => "closure_once_shim",
                                ty::InstanceKind::FnPtrShim(..) => "fn_ptr_shim",
                                ty::InstanceKind::Intrinsic(_) => "intrinsic",
                                ty::InstanceKind::DropGlue(..) => "drop_glue",
                                ty::InstanceKind::CloneShim(..) => "clone_shim",
                                _ => "other",
                            }),
                        );
                    }
                    _ => o.put("res", J::Null),
                }
                return o;
            }
        }
        J::kv(vec![("indirect", self.operand(func))])
    }

    fn unwind(&self, u: &UnwindAction) -> J {
        match u {
            UnwindAction::Cleanup(bb) => J::UInt(bb.as_usize() as u128),
            _ => J::Null,
        }
    }

    fn body(&self) -> J {
        let tcx = self.tcx;
        let body = self.body;
        let mut o = J::obj();
        o.put("arg_count", J::UInt(body.arg_count as u128));
        // locals
        let mut names: Vec<Option<String>> = vec![None; body.local_decls.len()];
        for vdi in body.var_debug_info.iter() {
            if let mir::VarDebugInfoContents::Place(p) = &vdi.value {
                if p.projection.is_empty() && names[p.local.as_usize()].is_none() {
                    names[p.local.as_usize()] = Some(vdi.name.to_string());
                }
            }
        }
        let mut locals = vec![];
        for (l, d) in body.local_decls.iter_enumerated() {
            let mut lo = J::kv(vec![("ty", J::Str(d.ty.to_string()))]);
            if let Some(n) = &names[l.as_usize()] {
                lo.put("name", J::s(n));
            }
            locals.push(lo);
        }
        o.put("locals", J::Arr(locals));
        let mut blocks = vec![];
        for (_bb, data) in body.basic_blocks.iter_enumerated() {
            let mut b = J::obj();
            b.put("cleanup", J::Bool(data.is_cleanup));
            let mut stmts = vec![];
            for st in &data.statements {
                let sp = st.source_info.span;
                match &st.kind {
                    StatementKind::Assign(box (pl, rv)) => {
                        let mut s = J::kv(vec![
                            ("k", J::s("assign")),
                            ("place", self.place(pl)),
                            ("rv", self.rvalue(rv)),
                            ("line", J::UInt(line_of(tcx, sp))),
                        ]);
                        if sp.from_expansion() {
                            s.put("macros", macro_chain(sp));
                        }
                        stmts.push(s);
                    }
                    StatementKind::SetDiscriminant { place, variant_index } => {
                        stmts.push(J::kv(vec![
                            ("k", J::s("setdiscr")),
                            ("place", self.place(place)),
                            ("vi", J::UInt(variant_index.as_usize() as u128)),
                        ]));
                    }
                    StatementKind::StorageLive(_)
                    | StatementKind::StorageDead(_)
                    | StatementKind::Nop
                    | StatementKind::FakeRead(..)
                    | StatementKind::AscribeUserType(..)
                    | StatementKind::PlaceMention(..)
                    | StatementKind::Coverage(..)
                    | StatementKind::ConstEvalCounter => {}
                    other => {
                        stmts.push(J::kv(vec![
                            ("k", J::s("other")),
                            ("dbg", J::Str(format!("{:?}", other))),
                        ]));
                    }
                }
            }
            b.put("stmts", J::Arr(stmts));
            if let Some(term) = &data.terminator {
                let sp = term.source_info.span;
                let mut t = J::obj();
                t.put("line", J::UInt(line_of(tcx, sp)));
                if sp.from_expansion() {
                    t.put("macros", macro_chain(sp));
                }
                match &term.kind {
                    TerminatorKind::Goto { target } => {
                        t.put("k", J::s("goto"));
                        t.put("target", J::UInt(target.as_usize() as u128));
                    }
                    TerminatorKind::SwitchInt { discr, targets } => {
                        t.put("k", J::s("switch"));
                        t.put("discr", self.operand(discr));
                        t.put("discr_ty", J::Str(discr.ty(body, tcx).to_string()));
                        let mut arms = vec![];
                        for (v, bb) in targets.iter() {
                            arms.push(J::Arr(vec![J::UInt(v), J::UInt(bb.as_usize() as u128)]));
                        }
                        t.put("arms", J::Arr(arms));
                        t.put("otherwise", J::UInt(targets.otherwise().as_usize() as u128));
                    }
                    TerminatorKind::Return => t.put("k", J::s("return")),
                    TerminatorKind::Unreachable => t.put("k", J::s("unreachable")),
                    TerminatorKind::UnwindResume => t.put("k", J::s("resume")),
                    TerminatorKind::UnwindTerminate(_) => t.put("k", J::s("terminate")),
                    TerminatorKind::Drop { place, target, unwind, .. } => {
                        t.put("k", J::s("drop"));
                        t.put("place", self.place(place));
                        t.put("target", J::UInt(target.as_usize() as u128));
                        t.put("unwind", self.unwind(unwind));
                    }
                    TerminatorKind::Call { func, args, destination, target, unwind, fn_span, .. } => {
                        t.put("k", J::s("call"));
                        t.put("callee", self.callee(func));
                        t.put("args", J::Arr(args.iter().map(|a| self.operand(&a.node)).collect()));
                        t.put("dest", self.place(destination));
                        t.put(
                            "target",
                            match target {
                                Some(bb) => J::UInt(bb.as_usize() as u128),
                                None => J::Null,
                            },
                        );
                        t.put("unwind", self.unwind(unwind));
                        t.put("fn_line", J::UInt(line_of(tcx, *fn_span)));
                    }
                    TerminatorKind::Assert { cond, expected, msg, target, unwind } => {
                        t.put("k", J::s("assert"));
                        t.put("cond", self.operand(cond));
                        t.put("expected", J::Bool(*expected));
                        let (kind, ops): (String, Vec<J>) = match &**msg {
                            AssertKind::BoundsCheck { len, index } => (
                                "BoundsCheck".into(),
                                vec![self.operand(len), self.operand(index)],
                            ),
                            AssertKind::Overflow(op, a, b) => (
                                format!("Overflow({:?})", op),
                                vec![self.operand(a), self.operand(b)],
                            ),
                            AssertKind::OverflowNeg(a) => ("OverflowNeg".into(), vec![self.operand(a)]),
                            AssertKind::DivisionByZero(a) => ("DivisionByZero".into(), vec![self.operand(a)]),
                            AssertKind::RemainderByZero(a) => ("RemainderByZero".into(), vec![self.operand(a)]),
                            AssertKind::MisalignedPointerDereference { .. } => ("MisalignedPointerDereference".into(), vec![]),
                            AssertKind::NullPointerDereference => ("NullPointerDereference".into(), vec![]),
                            _ => ("Other".into(), vec![]),
                        };
                        t.put("kind", J::Str(kind));
                        t.put("ops", J::Arr(ops));
                        t.put("target", J::UInt(target.as_usize() as u128));
                        t.put("unwind", self.unwind(unwind));
                    }
                    TerminatorKind::FalseEdge { real_target, .. } => {
                        t.put("k", J::s("goto"));
                        t.put("target", J::UInt(real_target.as_usize() as u128));
                    }
                    TerminatorKind::FalseUnwind { real_target, .. } => {
                        t.put("k", J::s("goto"));
                        t.put("target", J::UInt(real_target.as_usize() as u128));
                    }
                    other => {
                        t.put("k", J::s("other"));
                        t.put("dbg", J::Str(format!("{:?}", other)));
                    }
                }
                b.put("term", t);
            }
            blocks.push(b);
        }
        o.put("blocks", J::Arr(blocks));
        o
    }
}

pub fn body_json<'tcx>(tcx: TyCtxt<'tcx>, ldid: LocalDefId) -> J {
    let did = ldid.to_def_id();
    let kind = tcx.def_kind(did);
    let mut o = J::obj();
    o.put("path", J::s(&tcx.def_path_str(did)));
    o.put(
        "kind",
        J::s(match kind {
            DefKind::Fn => "fn",
            DefKind::AssocFn => "assoc_fn",
            DefKind::Closure => "closure",
            _ => "other",
        }),
    );
    o.put("span", span_json(tcx, tcx.def_span(did)));
    o.put("exp", J::Bool(tcx.def_span(did).from_expansion()));
    if tcx.def_span(did).from_expansion() {
        o.put("macros", macro_chain(tcx.def_span(did)));
    }
    if matches!(kind, DefKind::Fn | DefKind::AssocFn) {
        o.put("pub", J::Bool(tcx.visibility(did).is_public()));
        let sig = tcx.fn_sig(did).skip_binder().skip_binder();
        o.put(
            "sig_inputs",
            J::Arr(sig.inputs().iter().map(|t| J::Str(t.to_string())).collect()),
        );
        o.put("sig_output", J::Str(sig.output().to_string()));
        if let Some(parent) = tcx.opt_parent(did) {
            if matches!(tcx.def_kind(parent), DefKind::Impl { .. }) {
                o.put("derived", J::Bool(tcx.is_automatically_derived(parent)));
                let self_ty: Ty<'tcx> = tcx.type_of(parent).instantiate_identity().skip_norm_wip();
                o.put("impl_self", J::Str(self_ty.to_string()));
                if let Some(h) = tcx.impl_opt_trait_ref(parent) {
                    o.put("impl_trait", J::s(&tcx.def_path_str(h.skip_binder().def_id)));
                }
            }
        }
    }
    if matches!(kind, DefKind::Closure) {
        o.put("parent", J::s(&tcx.def_path_str(tcx.typeck_root_def_id(did))));
        if let Some(p) = tcx.opt_parent(did) {
            o.put("direct_parent", J::s(&tcx.def_path_str(p)));
        }
        let caps = tcx.closure_captures(ldid);
        let mut cj = vec![];
        for c in caps.iter() {
            cj.push(J::kv(vec![
                ("name", J::s(c.var_ident.name.as_str())),
                ("by_ref", J::Bool(c.is_by_ref())),
                ("ty", J::Str(c.place.ty().to_string())),
            ]));
        }
        o.put("captures", J::Arr(cj));
    }
    let typing_env = ty::TypingEnv::post_analysis(tcx, did);
    let body = tcx.optimized_mir(did);
    let cx = Cx { tcx, body, typing_env };
    o.put("mir", cx.body());
    let promoted = tcx.promoted_mir(did);
    let mut pj = vec![];
    for pb in promoted.iter() {
        let pcx = Cx { tcx, body: pb, typing_env };
        pj.push(pcx.body());
    }
    o.put("promoted", J::Arr(pj));
    o
}
