// Minimal JSON value + writer (the driver has zero dependencies).
pub enum J {
    Null,
    Bool(bool),
    Int(i128),
    UInt(u128),
    Str(String),
    Arr(Vec<J>),
    Obj(Vec<(String, J)>),
}

impl J {
    pub fn obj() -> J {
        J::Obj(vec![])
    }
    pub fn s(s: &str) -> J {
        J::Str(s.to_string())
    }
    pub fn put(&mut self, k: &str, v: J) {
        if let J::Obj(o) = self {
            o.push((k.to_string(), v));
        }
    }
    pub fn kv(pairs: Vec<(&str, J)>) -> J {
        J::Obj(pairs.into_iter().map(|(k, v)| (k.to_string(), v)).collect())
    }
    pub fn write(&self, out: &mut String) {
        match self {
            J::Null => out.push_str("null"),
            J::Bool(b) => out.push_str(if *b { "true" } else { "false" }),
            J::Int(i) => out.push_str(&i.to_string()),
            J::UInt(i) => out.push_str(&i.to_string()),
            J::Str(s) => write_str(s, out),
            J::Arr(a) => {
                out.push('[');
                for (i, v) in a.iter().enumerate() {
                    if i > 0 {
                        out.push(',');
                    }
                    v.write(out);
                }
                out.push(']');
            }
            J::Obj(o) => {
                out.push('{');
                for (i, (k, v)) in o.iter().enumerate() {
                    if i > 0 {
                        out.push(',');
                    }
                    write_str(k, out);
                    out.push(':');
                    v.write(out);
                }
                out.push('}');
            }
        }
    }
}

fn write_str(s: &str, out: &mut String) {
    out.push('"');
    for c in s.chars() {
        match c {
            '"' => out.push_str("\\\""),
            '\\' => out.push_str("\\\\"),
            '\n' => out.push_str("\\n"),
            '\r' => out.push_str("\\r"),
            '\t' => out.push_str("\\t"),
            c if (c as u32) < 0x20 || (c as u32) == 0x7f => {
                out.push_str(&format!("\\u{:04x}", c as u32))
            }
            c if (c as u32) > 0xffff => {
                let mut buf = [0u16; 2];
                for u in c.encode_utf16(&mut buf) {
                    out.push_str(&format!("\\u{:04x}", u));
                }
            }
            c if (c as u32) >= 0x80 => out.push_str(&format!("\\u{:04x}", c as u32)),
            c => out.push(c),
        }
    }
    out.push('"');
}
