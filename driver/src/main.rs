// grexfacts — rustc_private fact extractor. It contains no rule: it dumps the
// type-checked program (items, ADTs, evaluated constants, unoptimised MIR with
// resolved callees, pre-expansion attributes) as one JSON file per crate.
//
// env GREXFACTS_OUT     directory to write <crate>.<lib|bin>.json into (required to dump)
// env GREXFACTS_CRATES  comma separated crate names dumped in full (default: grex)
// env GREXFACTS_DEPS    comma separated crate names dumped *filtered* (default: none)
// env GREXFACTS_FILTER  comma separated def-path substrings selecting fns/consts of DEPS crates
//
// Used as RUSTC_WORKSPACE_WRAPPER / RUSTC_WRAPPER: argv[1] is the real rustc and is dropped.
#![feature(rustc_private)]
#![feature(box_patterns)]
#![allow(clippy::all)]

extern crate rustc_abi;
extern crate rustc_ast;
extern crate rustc_ast_pretty;
extern crate rustc_driver;
extern crate rustc_hir;
extern crate rustc_interface;
extern crate rustc_middle;
extern crate rustc_parse;
extern crate rustc_session;
extern crate rustc_span;

mod json;
mod mirdump;
mod preexp;
mod values;

use json::J;
use rustc_driver::Compilation;
use rustc_hir::def::DefKind;
use rustc_middle::ty::{self, TyCtxt};

pub struct Cfg {
    out: String,
    full: bool,
    filter: Vec<String>,
}

struct Cb {
    cfg: Cfg,
    attrs: Vec<J>,
}

impl rustc_driver::Callbacks for Cb {
    fn after_crate_root_parsing(
        &mut self,
        compiler: &rustc_interface::interface::Compiler,
        krate: &mut rustc_ast::Crate,
    ) -> Compilation {
        if self.cfg.full {
            preexp::collect(compiler, krate, &mut self.attrs);
        }
        Compilation::Continue
    }

    fn after_analysis<'tcx>(
        &mut self,
        _c: &rustc_interface::interface::Compiler,
        tcx: TyCtxt<'tcx>,
    ) -> Compilation {
        let attrs = std::mem::take(&mut self.attrs);
        rustc_middle::ty::print::with_no_trimmed_paths!(dump(tcx, &self.cfg, attrs));
        Compilation::Continue
    }
}

fn wanted(cfg: &Cfg, path: &str) -> bool {
    cfg.full || cfg.filter.iter().any(|f| path.contains(f.as_str()))
}

fn dump<'tcx>(tcx: TyCtxt<'tcx>, cfg: &Cfg, attrs: Vec<J>) {
    let crate_name = tcx.crate_name(rustc_span::def_id::LOCAL_CRATE).to_string();
    let is_bin = tcx
        .crate_types()
        .iter()
        .any(|t| matches!(t, rustc_session::config::CrateType::Executable));
    let mut root = J::obj();
    root.put("crate", J::s(&crate_name));
    root.put("crate_type", J::s(if is_bin { "bin" } else { "lib" }));
    root.put("full", J::Bool(cfg.full));
    root.put("attrs", J::Arr(attrs));

    // ---- ADTs, consts, statics, impl facts
    let mut adts = vec![];
    let mut consts = vec![];
    let mut unsafe_items = vec![];
    for ldid in tcx.hir_crate_items(()).definitions() {
        let did = ldid.to_def_id();
        let kind = tcx.def_kind(did);
        let path = tcx.def_path_str(did);
        match kind {
            DefKind::Struct | DefKind::Enum | DefKind::Union if cfg.full => {
                adts.push(mirdump::adt_json(tcx, did));
            }
            DefKind::Const { .. } | DefKind::AssocConst { .. } => {
                if !wanted(cfg, &path) {
                    continue;
                }
                if tcx.generics_of(did).requires_monomorphization(tcx) {
                    continue;
                }
                let ty = tcx.type_of(did).instantiate_identity().skip_norm_wip();
                let mut o = J::obj();
                o.put("path", J::s(&path));
                o.put("kind", J::s("const"));
                o.put("ty", J::s(&ty.to_string()));
                o.put("span", mirdump::span_json(tcx, tcx.def_span(did)));
                match tcx.const_eval_poly(did) {
                    Ok(v) => o.put("value", values::read_const(tcx, v, ty, 0)),
                    Err(_) => o.put("value", J::Null),
                }
                consts.push(o);
            }
            DefKind::Static { .. } => {
                if !wanted(cfg, &path) {
                    continue;
                }
                let ty = tcx.type_of(did).instantiate_identity().skip_norm_wip();
                let mut o = J::obj();
                o.put("path", J::s(&path));
                o.put("kind", J::s("static"));
                o.put("ty", J::s(&ty.to_string()));
                o.put("span", mirdump::span_json(tcx, tcx.def_span(did)));
                o.put(
                    "mutable",
                    J::Bool(matches!(
                        tcx.static_mutability(did),
                        Some(rustc_ast::Mutability::Mut)
                    )),
                );
                o.put("thread_local", J::Bool(tcx.is_thread_local_static(did)));
                let te = ty::TypingEnv::fully_monomorphized();
                o.put("freeze", J::Bool(ty.is_freeze(tcx, te)));
                match tcx.eval_static_initializer(did) {
                    Ok(a) => o.put("value", values::read_val(tcx, a.inner(), 0, ty, 0)),
                    Err(_) => o.put("value", J::Null),
                }
                consts.push(o);
            }
            DefKind::Impl { of_trait: true } if cfg.full => {
                {
                    let h = tcx.impl_trait_header(did);
                    if h.safety.is_unsafe() {
                        let mut o = J::obj();
                        o.put("what", J::s("unsafe impl"));
                        o.put("path", J::s(&path));
                        o.put("span", mirdump::span_json(tcx, tcx.def_span(did)));
                        o.put("exp", J::Bool(tcx.def_span(did).from_expansion()));
                        unsafe_items.push(o);
                    }
                }
            }
            _ => {}
        }
    }
    root.put("adts", J::Arr(adts));
    root.put("consts", J::Arr(consts));

    // ---- bodies
    let mut bodies = vec![];
    for ldid in tcx.hir_body_owners() {
        let did = ldid.to_def_id();
        let kind = tcx.def_kind(did);
        if !matches!(kind, DefKind::Fn | DefKind::AssocFn | DefKind::Closure) {
            continue;
        }
        let path = tcx.def_path_str(did);
        if !wanted(cfg, &path) {
            continue;
        }
        if cfg.full {
            mirdump::unsafe_blocks(tcx, ldid, &path, &mut unsafe_items);
        }
        bodies.push(mirdump::body_json(tcx, ldid));
    }
    root.put("unsafe", J::Arr(unsafe_items));
    root.put("bodies", J::Arr(bodies));

    let file = format!(
        "{}/{}.{}.json",
        cfg.out,
        crate_name,
        if is_bin { "bin" } else { "lib" }
    );
    let mut s = String::new();
    root.write(&mut s);
    std::fs::write(&file, s).expect("grexfacts: cannot write fact file");
}

fn main() {
    let mut args: Vec<String> = std::env::args().collect();
    // wrapper protocol: argv[1] is the path of the real rustc
    if args.len() > 1 && (args[1].ends_with("rustc") || args[1].contains("/rustc")) {
        args.remove(1);
    }
    let out = std::env::var("GREXFACTS_OUT").unwrap_or_default();
    let full_list = std::env::var("GREXFACTS_CRATES").unwrap_or_else(|_| "grex".into());
    let deps_list = std::env::var("GREXFACTS_DEPS").unwrap_or_default();
    let filter: Vec<String> = std::env::var("GREXFACTS_FILTER")
        .unwrap_or_default()
        .split(',')
        .filter(|s| !s.is_empty())
        .map(|s| s.to_string())
        .collect();
    let mut crate_name = String::new();
    let mut i = 0;
    while i < args.len() {
        if args[i] == "--crate-name" && i + 1 < args.len() {
            crate_name = args[i + 1].clone();
        }
        i += 1;
    }
    let is_build_script = crate_name.starts_with("build_script");
    let full = !out.is_empty()
        && !is_build_script
        && full_list.split(',').any(|c| c == crate_name);
    let dep = !out.is_empty() && !full && deps_list.split(',').any(|c| c == crate_name);
    if full || dep {
        let mut cb = Cb {
            cfg: Cfg { out, full, filter },
            attrs: vec![],
        };
        rustc_driver::run_compiler(&args, &mut cb);
    } else {
        struct Nop;
        impl rustc_driver::Callbacks for Nop {}
        rustc_driver::run_compiler(&args, &mut Nop);
    }
}
