// Decoding of compile-time evaluated values (constants, statics, promoted
// operands) into JSON by walking the interpreter allocation with the type's layout.
use crate::json::J;
use rustc_abi::{FieldsShape, Size, Variants};
use rustc_middle::mir::interpret::{Allocation, GlobalAlloc, Scalar};
use rustc_middle::mir::ConstValue;
use rustc_middle::ty::{self, Ty, TyCtxt};

const MAX_DEPTH: usize = 6;
const MAX_ELEMS: u64 = 200_000;

fn other(ty: Ty<'_>, why: &str) -> J {
    J::kv(vec![
        ("t", J::s("other")),
        ("ty", J::s(&ty.to_string())),
        ("why", J::s(why)),
    ])
}

fn scalar_json<'tcx>(ty: Ty<'tcx>, bits: u128, size: u64) -> J {
    match ty.kind() {
        ty::Bool => J::kv(vec![("t", J::s("bool")), ("v", J::Bool(bits != 0))]),
        ty::Char => J::kv(vec![("t", J::s("char")), ("v", J::UInt(bits))]),
        ty::Int(_) => {
            let shift = 128 - size * 8;
            let v = ((bits << shift) as i128) >> shift;
            J::kv(vec![
                ("t", J::s("int")),
                ("v", J::Int(v)),
                ("ty", J::s(&ty.to_string())),
            ])
        }
        _ => J::kv(vec![
            ("t", J::s("int")),
            ("v", J::UInt(bits)),
            ("ty", J::s(&ty.to_string())),
        ]),
    }
}

fn read_bits(alloc: &Allocation, off: u64, size: u64) -> Option<u128> {
    if size > 16 || off + size > alloc.len() as u64 {
        return None;
    }
    let bytes = alloc.inspect_with_uninit_and_ptr_outside_interpreter(off as usize..(off + size) as usize);
    let mut v: u128 = 0;
    for (i, b) in bytes.iter().enumerate() {
        v |= (*b as u128) << (8 * i);
    }
    Some(v)
}

// Follows the pointer stored at `off`: returns (target allocation id, offset in it).
fn read_ptr<'tcx>(
    tcx: TyCtxt<'tcx>,
    alloc: &Allocation,
    off: u64,
) -> Option<(rustc_middle::mir::interpret::AllocId, u64)> {
    let psize = tcx.data_layout.pointer_size().bytes();
    let raw = read_bits(alloc, off, psize)? as u64;
    let prov = alloc.provenance().ptrs().get(&Size::from_bytes(off))?;
    Some((prov.alloc_id(), raw))
}

fn read_pointee<'tcx>(
    tcx: TyCtxt<'tcx>,
    id: rustc_middle::mir::interpret::AllocId,
    ptr_off: u64,
    len: Option<u64>,
    pointee: Ty<'tcx>,
    depth: usize,
) -> J {
    match tcx.global_alloc(id) {
        GlobalAlloc::Memory(m) => read_unsized(tcx, m.inner(), ptr_off, len, pointee, depth),
        GlobalAlloc::Static(did) => {
            let mut o = J::kv(vec![
                ("t", J::s("static_ref")),
                ("path", J::s(&tcx.def_path_str(did))),
            ]);
            if !tcx.is_foreign_item(did) {
                if let Ok(a) = tcx.eval_static_initializer(did) {
                    o.put("value", read_unsized(tcx, a.inner(), ptr_off, len, pointee, depth));
                }
            }
            o
        }
        GlobalAlloc::Function { instance } => J::kv(vec![
            ("t", J::s("fn")),
            ("path", J::s(&tcx.def_path_str(instance.def_id()))),
        ]),
        _ => other(pointee, "unsupported global alloc"),
    }
}

fn read_unsized<'tcx>(
    tcx: TyCtxt<'tcx>,
    alloc: &Allocation,
    off: u64,
    len: Option<u64>,
    pointee: Ty<'tcx>,
    depth: usize,
) -> J {
    match (pointee.kind(), len) {
        (ty::Str, Some(n)) => {
            if off + n > alloc.len() as u64 {
                return other(pointee, "str out of bounds");
            }
            let bytes =
                alloc.inspect_with_uninit_and_ptr_outside_interpreter(off as usize..(off + n) as usize);
            J::kv(vec![
                ("t", J::s("str")),
                ("v", J::Str(String::from_utf8_lossy(bytes).into_owned())),
            ])
        }
        (ty::Slice(elem), Some(n)) => read_seq(tcx, alloc, off, n, *elem, depth),
        _ => read_val(tcx, alloc, off, pointee, depth + 1),
    }
}

fn read_seq<'tcx>(
    tcx: TyCtxt<'tcx>,
    alloc: &Allocation,
    off: u64,
    n: u64,
    elem: Ty<'tcx>,
    depth: usize,
) -> J {
    if n > MAX_ELEMS {
        return other(elem, "sequence too long");
    }
    let te = ty::TypingEnv::fully_monomorphized();
    let lay = match tcx.layout_of(te.as_query_input(elem)) {
        Ok(l) => l,
        Err(_) => return other(elem, "no layout"),
    };
    let stride = lay.size.bytes();
    if let ty::Uint(ty::UintTy::U8) = elem.kind() {
        if off + n <= alloc.len() as u64 {
            let bytes =
                alloc.inspect_with_uninit_and_ptr_outside_interpreter(off as usize..(off + n) as usize);
            return J::kv(vec![
                ("t", J::s("bytes")),
                ("v", J::Arr(bytes.iter().map(|b| J::UInt(*b as u128)).collect())),
            ]);
        }
    }
    let mut v = Vec::with_capacity(n as usize);
    for i in 0..n {
        v.push(read_val(tcx, alloc, off + i * stride, elem, depth + 1));
    }
    J::kv(vec![("t", J::s("seq")), ("v", J::Arr(v))])
}

pub fn read_val<'tcx>(
    tcx: TyCtxt<'tcx>,
    alloc: &Allocation,
    off: u64,
    ty: Ty<'tcx>,
    depth: usize,
) -> J {
    if depth > MAX_DEPTH {
        return other(ty, "depth");
    }
    let te = ty::TypingEnv::fully_monomorphized();
    let lay = match tcx.layout_of(te.as_query_input(ty)) {
        Ok(l) => l,
        Err(_) => return other(ty, "no layout"),
    };
    match ty.kind() {
        ty::Bool | ty::Char | ty::Int(_) | ty::Uint(_) => {
            let size = lay.size.bytes();
            match read_bits(alloc, off, size) {
                Some(b) => scalar_json(ty, b, size),
                None => other(ty, "bits"),
            }
        }
        ty::Ref(_, inner, _) | ty::RawPtr(inner, _) => {
            let psize = tcx.data_layout.pointer_size().bytes();
            let wide = matches!(inner.kind(), ty::Str | ty::Slice(_));
            let len = if wide { read_bits(alloc, off + psize, psize).map(|v| v as u64) } else { None };
            match read_ptr(tcx, alloc, off) {
                Some((id, po)) => read_pointee(tcx, id, po, len, *inner, depth),
                None => other(ty, "pointer without provenance"),
            }
        }
        ty::Array(elem, n) => match n.try_to_target_usize(tcx) {
            Some(n) => read_seq(tcx, alloc, off, n, *elem, depth),
            None => other(ty, "array len"),
        },
        ty::Tuple(tys) => {
            let mut v = vec![];
            for (i, t) in tys.iter().enumerate() {
                let fo = match &lay.fields {
                    FieldsShape::Arbitrary { offsets, .. } => offsets[rustc_abi::FieldIdx::from_usize(i)].bytes(),
                    _ => return other(ty, "tuple layout"),
                };
                v.push(read_val(tcx, alloc, off + fo, t, depth + 1));
            }
            J::kv(vec![("t", J::s("tuple")), ("v", J::Arr(v))])
        }
        ty::Adt(adt, args) if adt.is_struct() => {
            if !matches!(lay.variants, Variants::Single { .. }) {
                return other(ty, "struct variants");
            }
            let mut fields = vec![];
            for (i, f) in adt.non_enum_variant().fields.iter().enumerate() {
                let fo = match &lay.fields {
                    FieldsShape::Arbitrary { offsets, .. } => offsets[rustc_abi::FieldIdx::from_usize(i)].bytes(),
                    _ => return other(ty, "struct layout"),
                };
                let fty = f.ty(tcx, args);
                fields.push(J::kv(vec![
                    ("name", J::s(f.name.as_str())),
                    ("value", read_val(tcx, alloc, off + fo, fty, depth + 1)),
                ]));
            }
            J::kv(vec![
                ("t", J::s("struct")),
                ("path", J::s(&tcx.def_path_str(adt.did()))),
                ("fields", J::Arr(fields)),
            ])
        }
        ty::FnDef(did, _) => J::kv(vec![
            ("t", J::s("fn")),
            ("path", J::s(&tcx.def_path_str(*did))),
        ]),
        _ => other(ty, "unsupported type"),
    }
}

pub fn read_const<'tcx>(tcx: TyCtxt<'tcx>, val: ConstValue, ty: Ty<'tcx>, depth: usize) -> J {
    match val {
        ConstValue::ZeroSized => match ty.kind() {
            ty::FnDef(did, args) => J::kv(vec![
                ("t", J::s("fn")),
                ("path", J::s(&tcx.def_path_str(*did))),
                ("args", J::Arr(args.iter().map(|a| J::s(&a.to_string())).collect())),
            ]),
            _ => J::kv(vec![("t", J::s("zst")), ("ty", J::s(&ty.to_string()))]),
        },
        ConstValue::Scalar(Scalar::Int(si)) => {
            let size = si.size().bytes();
            scalar_json(ty, si.to_bits(si.size()), size)
        }
        ConstValue::Scalar(Scalar::Ptr(ptr, _)) => {
            let (prov, offset) = ptr.prov_and_relative_offset();
            match ty.kind() {
                ty::Ref(_, inner, _) | ty::RawPtr(inner, _) => {
                    read_pointee(tcx, prov.alloc_id(), offset.bytes(), None, *inner, depth)
                }
                _ => other(ty, "scalar ptr of non-pointer type"),
            }
        }
        ConstValue::Slice { alloc_id, meta } => match ty.kind() {
            ty::Ref(_, inner, _) | ty::RawPtr(inner, _) => {
                read_pointee(tcx, alloc_id, 0, Some(meta), *inner, depth)
            }
            _ => other(ty, "slice of non-pointer type"),
        },
        ConstValue::Indirect { alloc_id, offset } => match tcx.global_alloc(alloc_id) {
            GlobalAlloc::Memory(m) => read_val(tcx, m.inner(), offset.bytes(), ty, depth),
            _ => other(ty, "indirect non-memory"),
        },
    }
}
