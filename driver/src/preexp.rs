// Pre-expansion attributes of struct fields, fns and impl methods (derive and
// attribute proc-macros consume them, so they must be read from the parsed AST).
// Out-of-line modules (`mod x;`) are not loaded yet at this point, so their
// files are parsed here with the compiler's own parser.
use crate::json::J;
use rustc_ast as ast;
use rustc_ast_pretty::pprust;
use std::path::{Path, PathBuf};

struct W<'a> {
    psess: &'a rustc_session::parse::ParseSess,
    out: &'a mut Vec<J>,
}

fn attrs_json(attrs: &[ast::Attribute]) -> J {
    let mut v = vec![];
    for a in attrs {
        if let ast::AttrKind::Normal(n) = &a.kind {
            let path = n
                .item
                .path
                .segments
                .iter()
                .map(|s| s.ident.to_string())
                .collect::<Vec<_>>()
                .join("::");
            v.push(J::kv(vec![
                ("path", J::Str(path)),
                ("text", J::Str(pprust::attribute_to_string(a))),
            ]));
        }
    }
    J::Arr(v)
}

impl<'a> W<'a> {
    fn emit(&mut self, kind: &str, container: &str, name: &str, attrs: &[ast::Attribute], extra: Option<(&str, J)>) {
        let mut o = J::kv(vec![
            ("kind", J::s(kind)),
            ("container", J::s(container)),
            ("name", J::s(name)),
            ("attrs", attrs_json(attrs)),
        ]);
        if let Some((k, v)) = extra {
            o.put(k, v);
        }
        self.out.push(o);
    }

    fn items(&mut self, items: &[Box<ast::Item>], modpath: &str, dir: &Path, file_stem_dir: &Path) {
        for it in items {
            match &it.kind {
                ast::ItemKind::Mod(_, ident, kind) => {
                    let name = ident.to_string();
                    let sub = if modpath.is_empty() { name.clone() } else { format!("{}::{}", modpath, name) };
                    match kind {
                        ast::ModKind::Loaded(inner, ..) => {
                            // inline module: nested out-of-line modules live in <dir>/<name>/
                            let nd = file_stem_dir.join(&name);
                            self.items(inner, &sub, &nd, &nd);
                        }
                        ast::ModKind::Unloaded => {
                            let cand1 = file_stem_dir.join(format!("{}.rs", name));
                            let cand2 = file_stem_dir.join(&name).join("mod.rs");
                            let (file, ndir) = if cand1.exists() {
                                (cand1, file_stem_dir.join(&name))
                            } else if cand2.exists() {
                                (cand2, file_stem_dir.join(&name))
                            } else {
                                continue;
                            };
                            self.file(&file, &sub, &ndir);
                        }
                    }
                    let _ = dir;
                }
                ast::ItemKind::Struct(ident, _, vd) => {
                    let sname = ident.to_string();
                    let cont = if modpath.is_empty() { sname.clone() } else { format!("{}::{}", modpath, sname) };
                    self.emit("struct", modpath, &sname, &it.attrs, None);
                    for f in vd.fields() {
                        let fname = f.ident.map(|i| i.to_string()).unwrap_or_default();
                        self.emit("field", &cont, &fname, &f.attrs, Some(("ty", J::Str(pprust::ty_to_string(&f.ty)))));
                    }
                }
                ast::ItemKind::Fn(f) => {
                    self.emit("fn", modpath, &f.ident.to_string(), &it.attrs, None);
                }
                ast::ItemKind::Impl(imp) => {
                    let self_ty = pprust::ty_to_string(&imp.self_ty);
                    let cont = if modpath.is_empty() { self_ty.clone() } else { format!("{}::{}", modpath, self_ty) };
                    self.emit("impl", modpath, &self_ty, &it.attrs, None);
                    for ai in imp.items.iter() {
                        if let ast::AssocItemKind::Fn(f) = &ai.kind {
                            self.emit("impl_fn", &cont, &f.ident.to_string(), &ai.attrs, None);
                        }
                    }
                }
                _ => {}
            }
        }
    }

    fn file(&mut self, file: &Path, modpath: &str, dir: &Path) {
        let parser = rustc_parse::new_parser_from_file(self.psess, file, rustc_parse::lexer::StripTokens::Nothing, None);
        let mut parser = match parser {
            Ok(p) => p,
            Err(errs) => {
                for e in errs {
                    e.cancel();
                }
                return;
            }
        };
        match parser.parse_crate_mod() {
            Ok(krate) => {
                self.items(&krate.items, modpath, dir, dir);
            }
            Err(e) => {
                e.cancel();
            }
        }
    }
}

pub fn collect(compiler: &rustc_interface::interface::Compiler, krate: &ast::Crate, out: &mut Vec<J>) {
    let psess = &compiler.sess.psess;
    let root: PathBuf = match compiler.sess.local_crate_source_file() {
        Some(f) => match f.local_path() {
            Some(p) => p.to_path_buf(),
            None => return,
        },
        None => return,
    };
    let dir = root.parent().map(|p| p.to_path_buf()).unwrap_or_default();
    let mut w = W { psess, out };
    w.items(&krate.items, "", &dir, &dir);
}
