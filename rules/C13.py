"""C13 — repetition thresholds are honoured; braces only on request (guards and provenance)."""
from sa import callgraph, ccp, guards, local
from sa.facts import callee_name, norm
from . import common

GRAPHEME = "grapheme::Grapheme"


def constructors(lib):
    """Functions (not derived) that build a Grapheme aggregate: path -> (body, {field: origin})."""
    out = {}
    for b in lib.bodies:
        if b.derived:
            continue
        d = None
        for _, blk in b.iter_blocks():
            for s in blk["stmts"]:
                if s["k"] == "assign" and s["rv"]["k"] == "aggregate" and s["rv"].get("agg") == "adt" \
                        and norm(s["rv"]["adt"]) == GRAPHEME:
                    d = d or local.Defs(b)
                    o = d.rvalue(s["rv"])
                    out[b.path] = (b, dict(zip(s["rv"]["fields"], o[3])))
    return out


def from_existing(o):
    """count expression built only from existing graphemes' minimum()/maximum() through std::cmp::min/max"""
    o = local.peel(o)
    if o[0] != "call":
        return False
    if o[1] in (GRAPHEME + "::minimum", GRAPHEME + "::maximum"):
        return True
    if o[1] in ("std::cmp::min", "std::cmp::max", "std::cmp::Ord::min", "std::cmp::Ord::max"):
        return all(from_existing(a) for a in o[2])
    return False


def run(ctx):
    ctx.rule("THR-G1", "every call chain from build() to the function that splices quantified graphemes passes a call site guarded by the "
                       "repetition-conversion setting being true")
    ctx.rule("THR-G2", "Grapheme constructors: the plain one writes constants min=max=1; the free-count one is called only from the splice site and "
                       "from the trie merge whose counts derive from existing graphemes' counts")
    ctx.rule("THR-G3", "the repetition filter is the strict comparison count > minimum_repetitions with count = (end-start)/len; the splice is "
                       "dominated by the false edge of len(substring) < minimum_substring_length; recursion passes the same settings")
    ctx.assume("arithmetic of the occurrence ranges is correct for every input (not decided)")
    prog = common.view(ctx, "default")
    lib = prog.lib
    roles = common.role_fields(ctx, lib, want=("repetition", "min_repetitions", "min_substring_length"))
    ctx.rule("DEF-1", "every used argument-less producer of the settings (RegExpConfig::new, a derived Default once something calls it): every boolean option off, both thresholds 1")
    common.def1(ctx, lib)
    cons = constructors(lib)
    if not ctx.floor("THR-G2", "Grapheme constructor functions", len(cons), 2):
        return
    plain, free = [], []
    for path, (b, fields) in cons.items():
        mn, mx = fields.get("min"), fields.get("max")
        if mn is None or mx is None:
            ctx.anchor_lost("THR-G2", "min/max fields of Grapheme in " + path)
            continue
        if mn[0] == "const" and mx[0] == "const":
            if mn[1] == 1 and mx[1] == 1:
                plain.append(path)
                ctx.ok("THR-G2", path + ":constant counts", {"min": 1, "max": 1}, b.loc())
            else:
                ctx.violation("THR-G2", (path, "constant counts"), "constructor writes min=%r max=%r: a quantifier would appear without conversion" % (mn[1], mx[1]), b.loc())
        elif mn[0] == "param" and mx[0] == "param":
            free.append((path, mn[1], mx[1]))
        else:
            ctx.undecided("THR-G2", path, "counts are neither constants nor parameters: %s %s" % (local.show(mn), local.show(mx)), b.loc())
    splice_fn = None
    for path, imin, imax in free:
        sites = guards.call_sites(lib, path)
        ctx.floor("THR-G2", "callers of " + path, len(sites), 2)
        for body, blk, term in sites:
            d = guards.FnInfo.of(body).defs
            omin = d.operand(term["args"][imin - 1])
            omax = d.operand(term["args"][imax - 1])
            names = {x[1] for x in local.calls_in(omin) + local.calls_in(omax)}
            site = "%s->%s" % (body.path, path)
            # (a) the splice site: the constructed grapheme flows into Vec::splice of the same function
            has_splice = any((callee_name(t) or "").endswith("Vec::<T, A>::splice") for _, t in body.calls())
            if has_splice:
                splice_fn = body
                ctx.ok("THR-G2", site, {"kind": "splice site", "min": local.show(omin), "max": local.show(omax)}, body.loc(term.get("line")))
            elif from_existing(omin) and from_existing(omax):
                ctx.ok("THR-G2", site, {"kind": "merge of existing counts", "min": local.show(omin), "max": local.show(omax)}, body.loc(term.get("line")))
            else:
                ctx.violation("THR-G2", (body.path, path), "Grapheme constructed with free counts (%s, %s) outside the two audited callers"
                              % (local.show(omin), local.show(omax)), body.loc(term.get("line")))
    if splice_fn is None:
        ctx.anchor_lost("THR-G3", "function that splices quantified graphemes")
        return
    # THR-G1
    f_rep = roles.get("repetition")
    path = common.unguarded_reach(lib, common.BUILDER + "::build", splice_fn.path, common.guarded_by_field_true(f_rep))
    if path:
        ctx.violation("THR-G1", (splice_fn.path, "unguarded chain"), "repetition conversion is reachable without the setting being on: " + " -> ".join(path), splice_fn.loc())
    else:
        ctx.ok("THR-G1", splice_fn.path, {"guard": f_rep + " == true on every chain from build()"}, splice_fn.loc())
    # THR-G3 (b): substring length guard at the splice
    f_len = roles.get("min_substring_length")
    f_cnt = roles.get("min_repetitions")
    for bi, t in splice_fn.calls():
        if not (callee_name(t) or "").endswith("Vec::<T, A>::splice"):
            continue
        gs = [g for g in guards.guards(splice_fn, bi) if not g["loop"]]
        found = False
        for g in gs:
            o = g["origin"]
            if o[0] == "binop" and o[1] in ("Lt", "Le", "Gt", "Ge"):
                sides = [o[2], o[3]]
                cfgside = [i for i, sd in enumerate(sides) if any(common.origin_config_field(x) == f_len for x in local.walk(sd))]
                if not cfgside:
                    continue
                other = sides[1 - cfgside[0]]
                is_len = other[0] == "call" and other[1].endswith("::len")
                # normalise to: skip iff len < min   (splice on the false edge)
                op, truth = o[1], guards.edge_truth(g)
                if cfgside[0] == 0:
                    op = {"Lt": "Gt", "Le": "Ge", "Gt": "Lt", "Ge": "Le"}[op]
                ok = is_len and ((op == "Lt" and truth is False) or (op == "Ge" and truth is True))
                found = True
                if ok:
                    ctx.ok("THR-G3", splice_fn.path + ":substring-length guard", {"guard": local.show(o), "edge": truth}, splice_fn.loc(g["line"]))
                else:
                    ctx.violation("THR-G3", (splice_fn.path, "substring-length guard"),
                                  "splice is reached on the %s edge of %s; required: only when len(substring) >= minimum substring length" % (truth, local.show(o)),
                                  splice_fn.loc(g["line"]))
        if not found:
            ctx.violation("THR-G3", (splice_fn.path, "substring-length guard missing"), "no comparison with the minimum substring length dominates the splice", splice_fn.loc(t.get("line")))
    # THR-G3 (a): repetition count filter
    hits = []
    for b in lib.bodies:
        if b.kind != "closure" or b.sig_output:
            pass
        if b.kind != "closure":
            continue
        r = local.Defs(b).local(0)
        if r[0] == "binop" and r[1] in ("Lt", "Le", "Gt", "Ge", "Eq", "Ne"):
            sides = [r[2], r[3]]
            cs = [i for i, sd in enumerate(sides) if any(common.origin_config_field(x) == f_cnt for x in local.walk(sd))]
            if cs:
                hits.append((b, r, cs[0]))
    if ctx.floor("THR-G3", "comparison with the minimum-repetitions setting", len(hits), 1):
        for b, r, ci in hits:
            op = r[1]
            cnt = r[3] if ci == 0 else r[2]
            if ci == 0:
                op = {"Lt": "Gt", "Le": "Ge", "Gt": "Lt", "Ge": "Le"}.get(op, op)
            shape = local.show(cnt)
            is_count = any(x[0] == "binop" and x[1] == "Div" and x[2][0] == "binop" and x[2][1] in ("Sub", "SubWithOverflow") for x in local.walk(cnt)) \
                or ("Div(" in shape and "Sub" in shape)
            if op != "Gt":
                ctx.violation("THR-G3", (b.path, "repetition filter"), "filter keeps a repetition when count %s minimum_repetitions; documented: strictly greater" % op, b.loc())
            elif not is_count:
                ctx.violation("THR-G3", (b.path, "repetition count"), "compared quantity is %s, expected (range.end - range.start) / substring length" % shape, b.loc())
            else:
                # the closure must be the predicate of an Iterator::filter whose result feeds the pushing consumer
                site = common.closure_site(lib, b)
                used = False
                if site:
                    parent, d, _ = site
                    for bi, t in parent.calls():
                        n = callee_name(t) or ""
                        if n.endswith("Iterator::filter") and any(x[0] == "agg" and x[2] == b.path for x in local.walk(d.operand(t["args"][1]))):
                            for bj, t2 in parent.calls():
                                if t2["args"] and any(x[0] == "call" and x[3] == bi for x in local.walk(d.operand(t2["args"][0]))):
                                    used = True
                if used:
                    ctx.ok("THR-G3", b.path + ":count > minimum_repetitions", {"count": shape}, b.loc())
                else:
                    ctx.violation("THR-G3", (b.path, "filter unused"), "the threshold predicate is not applied as an Iterator::filter feeding the consumer", b.loc())
    # recursion passes the same settings object
    for b in lib.bodies:
        for bi, t in b.calls():
            n = callee_name(t)
            cb = lib.body(n) if n else None
            if cb is None or b.path != splice_fn.path:
                continue
            for i, ty in enumerate(cb.sig_inputs):
                if common.CONFIG in ty and i < len(t["args"]):
                    o = local.peel(local.Defs(b).operand(t["args"][i]))
                    if o[0] == "param":
                        ctx.ok("THR-G3", "%s->%s:same settings" % (b.path, n), None, b.loc(t.get("line")))
                    elif o[0] in ("field",) and o[3] == common.CONFIG:
                        pass
                    else:
                        ctx.violation("THR-G3", (b.path, n, "settings"), "nested conversion receives settings %s instead of the caller's" % local.show(o), b.loc(t.get("line")))
