"""MEMO-1 — a memo table must be keyed by everything the memoised computation reads (shared by C03, C04, C05, C10).

A keyed collection that is looked up and filled inside one loop body / closure is a cache of a per-item computation.  It is
sound only if two items that share a key are interchangeable for that computation:
  (A) `map.entry(K).or_insert_with(closure)`: every variable captured by the closure is contained in K through injective
      wrappers only (clone / to_string / references / tuples);
  (B) `map.get(&K)` ... `map.insert(K, V)` in the same loop body: K is an injective image of the loop item; a key produced
      by a lossy function (join, to_lowercase, value(), len, ...) lets different items share an entry.
A violated instance makes the result for one test case depend on *other* test cases (and, before the list is sorted, on their
order).  An index that only accumulates (entry(k).or_insert_with(Vec::new).push(..)) has no captured inputs and is accepted."""
import re

from sa import guards, local
from sa.facts import callee_name, norm

WRAPPERS = re.compile(r"(?:Clone>::clone|ToString>::to_string|::to_string|::to_owned|::to_vec|::as_str|::as_ref|::borrow|::into|String::from|::as_slice|Deref>::deref|::as_deref|::cloned|::copied)$")
LOSSY = re.compile(r"(?:::join|::to_lowercase|::to_uppercase|::to_ascii_lowercase|::to_ascii_uppercase|::len|::count|::value|::trim\w*|::first|::last|::chars|::bytes|::hash|::concat|::size|::char_count|::nth|::min|::max|::sum)$")
MAP_TY = re.compile(r"std::collections::(?:HashMap|BTreeMap|hash_map::HashMap|btree_map::BTreeMap)<")


def atoms(o, depth=0):
    """the non-wrapper sub-terms a key is assembled from (through injective wrappers only)"""
    o = local.peel(o)
    if depth > 12:
        return [o]
    if o[0] in ("ref", "deref"):
        return atoms(o[1], depth + 1)
    if o[0] == "agg" and o[1] == "tuple":
        out = []
        for x in o[3]:
            out += atoms(x, depth + 1)
        return out
    if o[0] == "call" and WRAPPERS.search(o[1]) and o[2]:
        return atoms(o[2][0], depth + 1)
    return [o]


def same(a, b):
    a, b = local.peel(a), local.peel(b)
    if a == b:
        return True
    if a[0] == b[0] == "call" and a[1] == b[1] and len(a) > 3 and len(b) > 3 and a[3] == b[3]:
        return True
    return False


def rules(ctx):
    ctx.rule("MEMO-1", "a map that is looked up and filled per item (memo table) is keyed by everything the memoised computation reads: captured inputs are in the key "
                       "through injective wrappers only, and the key is not produced by a lossy function")


def check(ctx, lib, reach=None):
    if reach is None:
        from sa import callgraph
        from . import common
        reach = callgraph.CallGraph(lib).reachable([common.BUILDER + "::build"])
    n = 0
    for b in lib.bodies:
        if b.derived or (reach is not None and b.path not in reach and not (b.kind == "closure" and b.parent in reach)):
            continue
        if not any(MAP_TY.search(norm(l_["ty"])) for l_ in b.locals):
            continue
        fi = guards.FnInfo.of(b)
        d = fi.defs
        loops = fi.cfg.natural_loops()
        # ---- pattern A
        for bi, t in b.calls():
            nm = callee_name(t) or ""
            if not re.search(r"Entry<'a, K, V(?:, A)?>::or_insert_with(?:_key)?$|Entry::<'a, K, V(?:, A)?>::or_insert_with(?:_key)?$", nm) and not nm.endswith("::or_insert_with"):
                continue
            ent = local.peel(d.operand(t["args"][0]))
            clo = local.peel(d.operand(t["args"][1]))
            if not (ent[0] == "call" and ent[1].endswith("::entry") and len(ent[2]) >= 2):
                continue
            if not (clo[0] == "agg" and clo[1] == "closure"):
                continue        # a plain constructor (Vec::new): an index, nothing memoised
            n += 1
            key_atoms = atoms(ent[2][1])
            caps = clo[3]
            cb = lib.body(clo[2])
            missing = []
            for i, c_ in enumerate(caps):
                ca = atoms(c_)
                if not all(any(same(x, k) for k in key_atoms) for x in ca):
                    nm_ = cb.captures[i]["name"] if cb is not None and i < len(cb.captures) else local.show(c_)[:40]
                    missing.append(nm_)
            site = "%s:entry(..).or_insert_with" % b.path
            if missing:
                ctx.violation("MEMO-1", (b.path, "memoised input not in key: " + ",".join(missing)),
                              "the memoised computation reads `%s`, which is not part of the cache key %s: an entry computed for one test case is reused for another one that "
                              "only shares the key (result depends on the other test cases and on their order)" % ("`, `".join(missing), local.show(ent[2][1])[:80]), b.loc(t.get("line")))
            else:
                ctx.ok("MEMO-1", site, {"captures": len(caps)}, b.loc(t.get("line")))
        # ---- pattern B
        gets, ins = [], []
        for bi, t in b.calls():
            nm = callee_name(t) or ""
            if not t["args"]:
                continue
            recv_ty = norm(t["args"][0]["place"]["ty"]) if t["args"][0].get("place") else ""
            if not MAP_TY.search(recv_ty):
                continue
            root = local.peel(d.operand(t["args"][0]))
            while root[0] in ("ref", "deref"):
                root = local.peel(root[1])
            if re.search(r"::(?:get|get_mut|contains_key|get_key_value)$", nm) and len(t["args"]) >= 2:
                gets.append((bi, t, root))
            if re.search(r"Map::<K, V(?:, [SA])*>::insert$|Map<K, V(?:, [SA])*>::insert$", nm) or (nm.endswith("::insert") and len(t["args"]) == 3):
                ins.append((bi, t, root))
        for gb, gt, groot in gets:
            for ib, it_, iroot in ins:
                if not same(groot, iroot):
                    continue
                common = [h for h, body in loops.items() if gb in body and ib in body]
                if not common and b.kind != "closure":
                    continue
                n += 1
                key = d.operand(it_["args"][1])
                ka = atoms(key)
                lossy = [k for k in ka if k[0] == "call" and LOSSY.search(k[1])]
                unknown = [k for k in ka if k[0] == "call" and not LOSSY.search(k[1]) and lib.body(k[1]) is None and not re.search(r"Iterator>::next$", k[1])]
                site = "%s:get/insert on one map in one loop" % b.path
                if lossy:
                    ctx.violation("MEMO-1", (b.path, "lossy cache key " + lossy[0][1].rsplit("::", 1)[-1]),
                                  "the cache key is produced by %s, which maps different items to the same key; the entry computed for the first of them is reused for the others "
                                  "(e.g. the graphemes `\\\\`,`d` and the class token `\\\\d` concatenate to the same text)" % lossy[0][1], b.loc(it_.get("line")))
                elif unknown:
                    ctx.undecided("MEMO-1", site, "cannot tell whether the cache key %s determines the cached value" % local.show(key)[:80], b.loc(it_.get("line")))
                else:
                    ctx.ok("MEMO-1", site, {"key": local.show(key)[:80]}, b.loc(it_.get("line")))
                break
    ctx.extra["memo_tables_found"] = n
    if n == 0:
        ctx.ok("MEMO-1", "no memo table in the functions reachable from build()", None)
