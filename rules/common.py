"""Shared anchors and analyses used by several properties' rules."""
import json
import os
import re

from sa import ccp, cfgkit, local, tables, views
from sa.facts import callee_name, cval, norm

VERIF = os.path.dirname(os.path.dirname(os.path.abspath(__file__)))

BUILDER = "builder::RegExpBuilder"
CONFIG = "config::RegExpConfig"


def spec(name):
    with open(os.path.join(VERIF, "spec", name + ".json")) as f:
        return json.load(f)


def view(ctx, name):
    prog, info = views.get(name)
    if info not in ctx.views:
        ctx.views.append(info)
    return prog


def loc(body, line=None):
    return body.loc(line)


# --------------------------------------------------------------------------- setters / roles

_setter_cache = {}


def setter_effects(crate, prefix=BUILDER + "::"):
    """ccp effect summary of every inherent method of the builder type:
    method name -> list of leaves [(kind, label, writes[(field path tuple, value V)], panic message, reads)]."""
    key = (id(crate), prefix)
    if key in _setter_cache:
        return _setter_cache[key]
    out = {}
    files = {b.file for b in crate.bodies if b.path.startswith(prefix)}

    def inl(n):
        # private helpers of the builder's module are part of a setter's body (e.g. `configure(|config| ..)`)
        # ... and so are the builder's own methods (one setter written in terms of others)
        x = crate.body(n)
        if x is None or x.file not in files or x.kind not in ("fn", "assoc_fn") or x.impl_trait or x.derived:
            return False
        return not x.is_pub or (x.kind == "assoc_fn" and x.path.startswith(prefix) and "::" not in x.path[len(prefix):])
    m = ccp.Machine([crate], inline=inl)
    for b in crate.bodies:
        if b.kind != "assoc_fn" or not b.path.startswith(prefix) or b.impl_trait:
            continue
        name = b.path[len(prefix):]
        if "::" in name:
            continue
        try:
            leaves = m.run(b)
        except Exception as e:  # Undecided etc.
            out[name] = {"body": b, "error": str(e), "leaves": []}
            continue
        out[name] = {"body": b, "leaves": leaves}
    _setter_cache[key] = out
    return out


def fld_path(v):
    """('self','config','x') for Fld(Fld(Sym(self),config),x); None otherwise."""
    parts = []
    while isinstance(v, ccp.Fld):
        parts.append(v.name)
        v = v.base
    if isinstance(v, ccp.Sym):
        parts.append(v.name)
        return tuple(reversed(parts))
    return None


def leaf_writes(leaf):
    """[(field path, value)] of symbolic-place writes on this leaf."""
    out = []
    for e in leaf.events:
        if e["k"] == "write" and isinstance(e.get("target"), ccp.V):
            out.append((fld_path(e["target"]), e["value"]))
    return out


FMT_ROLES = ("ignore_case", "verbose", "colour", "no_start_anchor", "no_end_anchor", "capture")
CLASS_ROLES = ("class:\\d", "class:\\D", "class:\\s", "class:\\S", "class:\\w", "class:\\W")


def role_fields(ctx, crate, rid="ROLE", want=None):
    """role -> RegExpConfig field name, derived from the public setters named in spec/api.json
    (so rules never hard-code a field name).  A setter must write constant `true` (or its
    parameter, for the thresholds / surrogate flag) to exactly the fields its documented
    roles require."""
    api = spec("api")
    eff = setter_effects(crate)
    roles = {}
    for setter, s in api["setters"].items():
        mine = set(s["roles"]) | ({s["param"]} if s.get("param") else set())
        report = want is None or bool(mine & set(want))
        e = eff.get(setter)
        if e is None:
            if s.get("cli_only"):
                continue
            if report:
                ctx.anchor_lost(rid, "public setter RegExpBuilder::%s" % setter)
            continue
        rets = [l for l in e["leaves"] if l.kind == "return"]
        if not rets:
            if report:
                ctx.undecided(rid, BUILDER + "::" + setter, "no returning path found")
            continue
        # use the returning leaf (threshold setters have one panic leaf and one return leaf)
        writes = leaf_writes(rets[-1])
        const_true = [w for w in writes if isinstance(w[1], ccp.Const) and w[1].v is True]
        param = [w for w in writes if isinstance(w[1], ccp.Sym)]
        want_roles = list(s["roles"])
        if s.get("param") and s["param"] not in want_roles:
            want_param = s["param"]
        else:
            want_param = s.get("param")
        n_const_roles = len([r for r in want_roles if r != want_param])
        if len(const_true) != n_const_roles or (want_param and len(param) != 1) or (not want_param and param):
            if report:
              ctx.violation(rid, (BUILDER + "::" + setter, "writes"),
                          "setter writes %s but its documented roles are %s" % (
                              [(".".join(w[0] or ("?",)), ccp.show(w[1])) for w in writes], want_roles + ([want_param] if want_param else [])),
                          e["body"].loc())
            continue
        ci = 0
        for r in want_roles:
            if r == want_param:
                continue
            f = const_true[ci][0][-1]
            ci += 1
            if r in roles and roles[r] != f:
                # e.g. without_anchors must write the same fields as the two single setters
                if report:
                  ctx.violation(rid, (BUILDER + "::" + setter, r),
                              "role %s is field %s per another setter but %s here" % (r, roles[r], f), e["body"].loc())
            roles.setdefault(r, f)
        if want_param:
            roles.setdefault(want_param, param[0][0][-1])
    # without_anchors lists two roles in documented order start,end: resolve by the single setters
    return roles


def config_atom(field, root="self", via=("config",)):
    v = ccp.Sym(root)
    for n in via:
        v = ccp.Fld(v, n)
    return ccp.Fld(v, field)


# --------------------------------------------------------------------------- tables

def const_table(crate, path):
    c = crate.consts.get(path)
    if c is None:
        return None
    v = cval(c.get("value"))
    if not isinstance(v, list):
        return None
    try:
        return [(ord(a), ord(b)) for (a, b) in v]
    except Exception:
        return None


_gc_cache = {}


def unic_general_category():
    """rows [(lo, hi, abbreviation)] and predicates {is_x: set of abbreviations} of the unic-ucd-category version named by the lock file, read from the
    dependency's source in the cargo registry (tables/general_category.rsv, src/category.rs); code points not listed are Cn."""
    from sa import views
    repo = views.REPO
    if repo in _gc_cache:
        return _gc_cache[repo]
    res = None
    try:
        lock = open(os.path.join(repo, "Cargo.lock")).read()
        m = re.search(r'name = "unic-ucd-category"\nversion = "([^"]+)"', lock)
        ver = m.group(1)
        import glob
        dirs = sorted(glob.glob(os.path.expanduser("~/.cargo/registry/src/*/unic-ucd-category-%s" % ver)))
        d = dirs[0]
        rows = []
        for mm in re.finditer(r"chars!\('\\u\{([0-9a-f]+)\}'\.\.='\\u\{([0-9a-f]+)\}'\), (\w+)\)", open(os.path.join(d, "tables", "general_category.rsv")).read()):
            rows.append((int(mm.group(1), 16), int(mm.group(2), 16), mm.group(3)))
        src = open(os.path.join(d, "src", "category.rs")).read()
        preds = {}
        for mm in re.finditer(r"pub fn (is_\w+)\(&self\) -> bool \{\s*(?:use [^;]+;\s*)?matches!\(\*self, ([^)]+)\)", src):
            preds[mm.group(1)] = {x.strip() for x in mm.group(2).split("|")}
        # unlisted code points are Unassigned (Cn)
        listed = tables.normalize([(lo, hi) for lo, hi, _ in rows])
        for lo, hi in tables.complement(listed, scalar_only=False):
            rows.append((lo, hi, "Cn"))
        uv = re.search(r"major: (\d+),\s*minor: (\d+)", open(os.path.join(d, "tables", "unicode_version.rsv")).read())
        if len(rows) > 1000 and len(preds) >= 5:
            res = {"rows": rows, "predicates": preds, "crate_version": ver, "unicode_version": "%s.%s" % (uv.group(1), uv.group(2)) if uv else "?"}
    except Exception:
        res = None
    _gc_cache[repo] = res
    return res


def regex_oracle_tables(ctx, prog, rid):
    """token -> (const path, normalized interval set) of the table regex-syntax compiles for \\d \\s \\w."""
    rs = prog.crate("regex_syntax.lib")
    if rs is None:
        ctx.anchor_lost(rid, "facts of crate regex_syntax")
        return {}
    out = {}
    for tok, fn in (("\\d", "unicode::perl_digit::imp"), ("\\s", "unicode::perl_space::imp"), ("\\w", "unicode::perl_word::imp")):
        b = rs.body(fn)
        if b is None:
            ctx.anchor_lost(rid, "regex_syntax::" + fn)
            continue
        consts = []
        for _, blk in b.iter_blocks():
            for s in blk["stmts"]:
                if s["k"] != "assign":
                    continue
                d = local.Defs(b)
                for t in local.consts_in(d.rvalue(s["rv"])):
                    if t[0] == "namedconst" and isinstance(t[2], list):
                        consts.append(t)
        paths = sorted({t[1] for t in consts})
        if len(paths) != 1:
            ctx.undecided(rid, "regex_syntax::" + fn, "expected exactly one table constant, found %s" % paths)
            continue
        tab = [(ord(a), ord(b)) for (a, b) in consts[0][2]]
        out[tok] = (paths[0], tables.normalize(tab), len(tab))
    return out


# --------------------------------------------------------------------------- class conversion closure

def class_closure(crate):
    """The closure char -> String that calls >= 3 crate-local predicates char -> bool."""
    hits = []
    for b in crate.bodies:
        if b.kind != "closure":
            continue
        preds = []
        for _, t in b.calls():
            n = callee_name(t)
            cb = crate.body(n) if n else None
            if cb is not None and cb.sig_inputs == ["char"] and cb.sig_output == "bool" and n not in preds:
                preds.append(n)
        if len(preds) >= 3:
            hits.append((b, preds))
    return hits


def predicate_table(ctx, crate, pred_path, rid):
    """TAB-2 wiring of one predicate: returns the def-path of the table constant it tests membership in, after checking
    (by constant propagation, crate-local helpers inlined) that the predicate is  any(range.contains(c))  over the lazily
    initialised range list of that table - possibly preceded by a bounding check that the table itself implies."""
    b = crate.body(pred_path)
    c = ccp.Sym("c")
    m = ccp.Machine([crate], inline=lambda n: crate.body(n) is not None and "__st" not in n and " as std::ops::Deref>" not in n
                    and " as lazy_static::" not in n, max_depth=4)
    try:
        leaves = m.run(b, [c])
    except Exception as e:
        ctx.undecided(rid, pred_path, str(e), b.loc())
        return None
    main = [l for l in leaves if l.kind == "return" and isinstance(l.value, ccp.Call) and l.value.callee.endswith("::any")]
    rest = [l for l in leaves if l not in main]
    if len(main) != 1:
        if any("binary_search" in a for l in leaves for a, _ in l.label):
            return _binary_search_predicate(ctx, crate, pred_path, rid, b, c, leaves)
        ctx.undecided(rid, pred_path, "the predicate is neither any(range.contains(c)) over its ranges nor a binary search over them: %s" % [ccp.show(l.value)[:80] for l in leaves], b.loc())
        return None
    ml = main[0]
    anyv = ml.value
    statics = set()

    def walkv(v, depth=0):
        if depth > 12:
            return
        if isinstance(v, ccp.Sym) and v.name.startswith("static "):
            statics.add(v.name[len("static "):])
        for x in (getattr(v, "args", None) or []):
            walkv(x, depth + 1)
        if isinstance(v, ccp.Fld):
            walkv(v.base, depth + 1)
    walkv(anyv.args[0])
    if len(statics) != 1:
        ctx.undecided(rid, pred_path, "expected one static range list, found %s" % sorted(statics), b.loc())
        return None
    static_path = list(statics)[0]
    # membership closure: |range| range.contains(c) with c the predicate's own parameter
    clo = anyv.args[1] if len(anyv.args) > 1 else None
    ok_clo = False
    if isinstance(clo, ccp.Agg) and clo.kind == "closure" and crate.body(clo.label) is not None:
        caps = [ccp.strip_ref(x) for x in clo.fields]
        cb = crate.body(clo.label)
        if len(caps) == 1 and isinstance(caps[0], ccp.Sym) and caps[0].key() == c.key():
            cd = local.Defs(cb)
            r = cd.local(0)
            if r[0] == "call" and r[1] == "unic_char_range::CharRange::contains":
                a0 = local.peel(r[2][0])
                a1 = local.peel(r[2][1])
                if a0 == ("param", 2) and a1[0] == "upvar":
                    ok_clo = True
    if not ok_clo and isinstance(clo, ccp.Agg) and clo.kind == "closure" and crate.body(clo.label) is not None \
            and len(clo.fields) == 1 and isinstance(ccp.strip_ref(clo.fields[0]), ccp.Sym) and ccp.strip_ref(clo.fields[0]).key() == c.key():
        # a membership test written differently over the same verified ranges (e.g. `r.low <= c && c <= r.high`): decided by its paths
        cb = crate.body(clo.label)
        verdict = None
        try:
            env = ccp.Agg("closure", cb.path, None, [ccp.Ref(ccp.Cell(ccp.Sym("c")))])
            ls = ccp.Machine([crate]).run(cb, [ccp.Ref(ccp.Cell(env)), ccp.Ref(ccp.Cell(ccp.Sym("r")))])
            norm_atoms = set()
            good = True
            for l in ls:
                if l.kind != "return":
                    good = False
                    break
                atoms = list(l.label)
                v = l.value
                if isinstance(v, ccp.Const) and isinstance(v.v, bool):
                    if not v.v:
                        continue
                else:
                    atoms.append((ccp.show(v), "True"))
                here = set()
                for a, val in atoms:
                    m_ = re.match(r"^(Le|Ge|Lt|Gt)\((.+), (.+)\)$", a)
                    if not m_ or val not in ("True", "False"):
                        good = False
                        break
                    op, x_, y_ = m_.group(1), m_.group(2), m_.group(3)
                    if val == "False":
                        op = {"Le": "Gt", "Ge": "Lt", "Lt": "Ge", "Gt": "Le"}[op]
                    if op in ("Ge", "Gt"):
                        op, x_, y_ = {"Ge": "Le", "Gt": "Lt"}[op], y_, x_
                    here.add((op, x_.replace("*", "").replace("&", ""), y_.replace("*", "").replace("&", "")))
                if not good:
                    break
                norm_atoms |= {frozenset(here)}
            if good and norm_atoms == {frozenset({("Le", "r.low", "c"), ("Le", "c", "r.high")})}:
                verdict = "ok"
            elif good and norm_atoms and all(any(op == "Lt" for op, _, _ in fs) for fs in norm_atoms):
                verdict = "open"
        except Exception:
            verdict = None
        if verdict == "ok":
            ok_clo = True
        elif verdict == "open":
            ctx.violation(rid, (pred_path, "membership closure"), "the membership test excludes an end point of the table's rows (strict comparison): the first or last code point of every row is "
                          "reported as not in the class", b.loc())
            return None
        else:
            ctx.undecided(rid, pred_path, "the membership test over the table's ranges is neither `range.contains(c)` nor a comparison with both end points that this analysis can read", b.loc())
            return None
    if not ok_clo:
        ctx.violation(rid, (pred_path, "membership closure"),
                      "predicate's closure is not `|range| range.contains(c)` with c the predicate's parameter (inclusive CharRange::contains)", b.loc())
        return None
    # extra conditions on the membership path: only a bounding check implied by the (sorted) table is accepted
    extra_conjuncts = []
    for atom, val in ml.label:
        mm = re.match(r"^std::ops::Range(Inclusive)?::<Idx>::contains\(std::ops::Range(?:Inclusive)?::Range(?:Inclusive)?\((.*)\), c\)$", atom)
        if mm and val == "True":
            inner = mm.group(2)
            lo_ok = re.search(r"\.\[0\]\.low", inner) is not None
            hi_ok = re.search(r"\.\[Sub(?:WithOverflow)?\(.*len\(.*\), 1\)(?:\.0)?\]\.high", inner) is not None
            if not (lo_ok and hi_ok):
                ctx.undecided(rid, pred_path, "membership is additionally conditioned on %s" % atom[:160], b.loc())
                return None
            if not mm.group(1):
                ctx.violation(rid, (pred_path, "bounding check"),
                              "membership is pre-checked with the half-open range first.low..last.high: the last code point of the table is reported as not in the class "
                              "although regex's class contains it", b.loc())
                return None
            continue
        gm = re.match(r"^unic_ucd_category::GeneralCategory::(is_\w+)\((?:&)?unic_ucd_category::GeneralCategory::of\(c\)\)$", atom)
        if gm:
            extra_conjuncts.append((gm.group(1), val == "True", atom))
            continue
        ctx.undecided(rid, pred_path, "membership is additionally conditioned on %s == %s" % (atom[:160], val), b.loc())
        return None
    if extra_conjuncts:
        # a second data source in front of the table: decided by evaluating it on every member of the table (the dependency's own table and
        # predicates, read from the locked version's source files)
        tpath0 = _static_table(ctx, crate, pred_path, static_path, rid, b, {"idiom": "any(range.contains(c)) behind a category pre-filter"})
        if tpath0 is None:
            return None
        tab = const_table(crate, tpath0)
        gc = unic_general_category()
        if tab is None or gc is None:
            ctx.undecided(rid, pred_path, "membership is additionally conditioned on %s and the dependency's category table could not be read" % extra_conjuncts[0][2][:120], b.loc())
            return None
        members = tables.normalize(tab)
        for fn, truth, atom in extra_conjuncts:
            cats = gc["predicates"].get(fn)
            if cats is None:
                ctx.undecided(rid, pred_path, "unknown category predicate %s" % fn, b.loc())
                return None
            sel = tables.normalize([(lo, hi) for lo, hi, cat in gc["rows"] if cat in cats])
            if not truth:
                sel = tables.complement(sel)
            lost = tables.difference(members, sel)
            if tables.count(lost):
                ctx.violation(rid, (pred_path, "pre-filter " + fn), "membership in the table is additionally conditioned on GeneralCategory::%s (unic-ucd-category %s, Unicode %s): "
                              "%d member(s) of the table fail it (first: %s) and are reported as not in the class, although the engine's class contains them"
                              % (fn, gc["crate_version"], gc["unicode_version"], tables.count(lost), tables.fmt_cp(lost[0][0])), b.loc())
                return None
        for l in rest:
            if not (l.kind == "return" and isinstance(l.value, ccp.Const) and l.value.v is False):
                ctx.undecided(rid, pred_path, "a path returns %s" % ccp.show(l.value)[:100], b.loc())
                return None
        return tpath0
    for l in rest:
        if not (l.kind == "return" and isinstance(l.value, ccp.Const) and l.value.v is False):
            ctx.undecided(rid, pred_path, "a path returns %s" % ccp.show(l.value)[:100], b.loc())
            return None
    return _static_table(ctx, crate, pred_path, static_path, rid, b, {"idiom": "any(range.contains(c))"})


def _binary_search_predicate(ctx, crate, pred_path, rid, b, c, leaves):
    """membership by binary search over the rows' lower bounds: decided by case split over the finite result domain Ok(j) / Err(i), i = 0..=rows"""
    inl = lambda n: crate.body(n) is not None and "__st" not in n and " as std::ops::Deref>" not in n and " as lazy_static::" not in n
    # the search call, its slice, key and key function
    calls = []
    for l in leaves:
        for e in l.events:
            if e["k"] == "call" and re.search(r"<impl \[T\]>::binary_search_by_key$", e["callee"]):
                calls.append(e)
    if not calls:
        ctx.undecided(rid, pred_path, "binary search by a comparator closure is not modelled", b.loc())
        return None
    e = calls[0]
    statics = set(re.findall(r"static ([\w:]+)", ccp.show(e["args"][0])))
    if len(statics) != 1 or ccp.strip_ref(e["args"][1]).key() != c.key():
        ctx.undecided(rid, pred_path, "binary search is not over one static range list with the predicate's own parameter as key", b.loc())
        return None
    static_path = list(statics)[0]
    clo = e["args"][2]
    keyfn_ok = False
    if isinstance(clo, ccp.Agg) and clo.kind == "closure" and crate.body(clo.label) is not None:
        r = local.peel(local.Defs(crate.body(clo.label)).local(0))
        if r[0] == "field" and r[1] == "low" and any(x == ("param", 2) for x in local.walk(r)):
            keyfn_ok = True
    if not keyfn_ok:
        ctx.violation(rid, (pred_path, "search key"), "the rows are searched by something other than their lower bound", b.loc())
        return None
    # number of rows: through the initialiser to the table constant
    inits = [x for x in crate.bodies if x.path.startswith("<%s as std::ops::Deref>::deref::" % static_path)
             and x.arg_count == 0 and x.sig_output and x.sig_output.startswith("std::vec::Vec")]
    rows = None
    if len(inits) == 1:
        r = local.Defs(inits[0]).local(0)
        arg = local.peel(r[2][0]) if r[0] == "call" and r[2] else None
        if arg and arg[0] == "namedconst":
            tab = const_table(crate, arg[1])
            rows = tab
    if not rows:
        ctx.undecided(rid, pred_path, "cannot resolve the table behind %s" % static_path, b.loc())
        return None
    n = len(rows)
    if any(rows[i][0] >= rows[i + 1][0] for i in range(n - 1)):
        ctx.violation(rid, (pred_path, "unsorted table"), "binary search over rows that are not strictly ascending by lower bound", b.loc())
        return None

    def run(result):
        def on_call(m, st, name, args, t):
            if name.endswith("binary_search_by_key"):
                return result
            if name.endswith("<impl [T]>::len") or name.endswith("Vec::<T, A>::len"):
                return ccp.Const(n)
            return None
        return [l for l in ccp.Machine([crate], inline=inl, max_depth=4, on_call=on_call).run(b, [c])]

    def cpv(x):
        return ord(x) if isinstance(x, str) else int(x)

    def fmt(cp):
        return "U+%04X" % cpv(cp)
    for l in run(ccp.Agg("adt", "std::result::Result::Ok", 0, [ccp.Const(0)])):
        if not (l.kind == "return" and isinstance(l.value, ccp.Const) and l.value.v is True):
            ctx.violation(rid, (pred_path, "exact hit"), "a code point equal to a row's lower bound is not reported as member (%s)" % ccp.show(l.value)[:60], b.loc())
            return None
    for i in range(0, n + 1):
        ls = run(ccp.Agg("adt", "std::result::Result::Err", 1, [ccp.Const(i)]))
        if len(ls) != 1:
            ctx.undecided(rid, pred_path, "the search result Err(%d) does not determine one path (%d paths: %s)" % (i, len(ls), [(a[:60], v) for a, v in ls[0].label][:2] if ls else ""), b.loc())
            return None
        l = ls[0]
        v = l.value
        if i == 0:
            good = l.kind == "return" and isinstance(v, ccp.Const) and v.v is False
            bad_msg = "for a code point below the first row (%s) the predicate %s" % (fmt(rows[0][0]), "panics" if l.kind == "panic" else "returns " + ccp.show(v)[:80])
        else:
            txt = ccp.show(v) if v is not None else ""
            good = l.kind == "return" and (re.fullmatch(r"Le\(c, .*\.\[%d\]\.high\)" % (i - 1), txt) is not None or re.fullmatch(r"Ge\(.*\.\[%d\]\.high, c\)" % (i - 1), txt) is not None
                                           or re.fullmatch(r"unic_char_range::CharRange::contains\(.*\.\[%d\], c\)" % (i - 1), txt) is not None)
            lo, hi = rows[i - 1]
            if l.kind == "return" and isinstance(v, ccp.Const) and v.v is False and cpv(hi) == cpv(lo):
                good = True     # nothing lies between this row's only element and the next row
            if l.kind == "return" and isinstance(v, ccp.Const) and v.v is True and i < n and cpv(hi) == cpv(rows[i][0]) - 1:
                good = True
            bad_msg = "for a code point after the lower bound of row %d of %d (%s..=%s) the predicate %s instead of comparing it with that row's upper bound: %s are misclassified" % (
                i, n, fmt(lo), fmt(hi), "panics" if l.kind == "panic" else "returns " + txt[:70],
                ("%s..=%s" % (fmt(cpv(lo) + 1), fmt(hi))) if cpv(hi) > cpv(lo) else "no code points (single-element row), but the row is still skipped")
        if not good:
            ctx.violation(rid, (pred_path, "binary search, result Err(%d)" % i), bad_msg, b.loc())
            return None
    return _static_table(ctx, crate, pred_path, static_path, rid, b, {"idiom": "binary search by lower bound, %d result cases decided" % (n + 2)})


def _static_table(ctx, crate, pred_path, static_path, rid, b, how):
    # initialiser: fn under the static's Deref impl that calls convert(table)
    inits = [x for x in crate.bodies if x.path.startswith("<%s as std::ops::Deref>::deref::" % static_path)
             and x.arg_count == 0 and x.sig_output and x.sig_output.startswith("std::vec::Vec")]
    if len(inits) != 1:
        ctx.undecided(rid, pred_path, "cannot find the lazy_static initialiser of %s" % static_path, b.loc())
        return None
    ib = inits[0]
    r = local.Defs(ib).local(0)
    if r[0] != "call" or crate.body(r[1]) is None:
        ctx.undecided(rid, ib.path, "initialiser is not a call of a crate function: %s" % local.show(r), ib.loc())
        return None
    conv = crate.body(r[1])
    arg = local.peel(r[2][0]) if r[2] else None
    if not arg or arg[0] != "namedconst":
        ctx.undecided(rid, ib.path, "initialiser argument is not a named table constant: %s" % local.show(r), ib.loc())
        return None
    if not check_range_converter(ctx, crate, conv, rid):
        return None
    ctx.ok(rid, pred_path, dict({"static": static_path, "table": arg[1], "converter": conv.path}, **how), b.loc())
    return arg[1]


_conv_checked = {}


def check_range_converter(ctx, crate, conv, rid):
    """convert(&[(char,char)]) maps every (s,e) to CharRange::closed(s,e) in that order and collects all."""
    if conv.path in _conv_checked:
        return _conv_checked[conv.path]
    ok = False
    r = local.Defs(conv).local(0)
    # collect_vec(map(iter(param1), closure))
    why = "unexpected shape " + local.show(r)
    if r[0] == "call" and r[1].endswith("collect_vec") and r[2] and r[2][0][0] == "call" and r[2][0][1].endswith("Iterator::map"):
        mp = r[2][0]
        src = mp[2][0]
        clo = mp[2][1]
        if src[0] == "call" and src[1].endswith("::iter") and local.peel(src[2][0]) == ("param", 1) and clo[0] == "agg" and clo[1] == "closure":
            cb = crate.body(clo[2])
            cr = local.Defs(cb).local(0)
            if cr[0] == "call" and cr[1] == "unic_char_range::CharRange::closed":
                a0, a1 = cr[2]
                if a0[0] == "field" and a1[0] == "field" and str(a0[1]) == "0" and str(a1[1]) == "1" \
                        and local.peel(a0[2]) == ("param", 2) and local.peel(a1[2]) == ("param", 2):
                    ok = True
                else:
                    why = "CharRange::closed arguments are not (pair.0, pair.1): %s" % local.show(cr)
            else:
                why = "range constructor is %s, expected the inclusive unic_char_range::CharRange::closed" % local.show(cr)
    if ok:
        ctx.ok(rid, conv.path, {"maps": "(s,e) -> CharRange::closed(s,e)"}, conv.loc())
    else:
        ctx.violation(rid, (conv.path, "CharRange::closed"), why, conv.loc())
    _conv_checked[conv.path] = ok
    return ok


_cp_cache = {}


def classify_predicates(ctx, prog, crate, rid_tab1="TAB-1", rid_tab2="TAB-2"):
    k = (id(ctx), id(crate))
    if k not in _cp_cache:
        _cp_cache[k] = _classify_predicates(ctx, prog, crate, rid_tab1, rid_tab2)
    return _cp_cache[k]


def _classify_predicates(ctx, prog, crate, rid_tab1="TAB-1", rid_tab2="TAB-2"):
    """predicate def-path -> token class by exact equality of its table with the
    regex-syntax oracle table."""
    hits = class_closure(crate)
    if len(hits) != 1:
        ctx.anchor_lost("CLS-1", "the closure char -> String calling three char -> bool predicates (found %d)" % len(hits))
        return None, {}, {}
    clo, preds = hits[0]
    oracle = regex_oracle_tables(ctx, prog, rid_tab1)
    pred_class = {}
    pred_tab = {}
    for p in preds:
        tpath = predicate_table(ctx, crate, p, rid_tab2)
        if tpath is None:
            continue
        tab = const_table(crate, tpath)
        if tab is None:
            ctx.undecided(rid_tab1, tpath, "table constant could not be decoded")
            continue
        try:
            nt = tables.normalize(tab)
        except ValueError as e:
            ctx.violation(rid_tab1, (tpath, "rows"), "table has an inverted row: %s" % e)
            continue
        pred_tab[p] = (tpath, nt, len(tab))
        eq = [tok for tok, (_, ot, _) in oracle.items() if tables.first_difference(nt, ot) is None]
        if len(eq) == 1:
            pred_class[p] = eq[0]
    return clo, pred_class, {"oracle": oracle, "pred_tab": pred_tab, "preds": preds}


# --------------------------------------------------------------------------- closure captures

def closure_site(crate, clo):
    """(parent body, Defs, aggregate origin term) of the statement that constructs closure `clo`."""
    parent = crate.body(clo.direct_parent) if clo.direct_parent else None
    if parent is None:
        return None
    d = local.Defs(parent)
    for _, blk in parent.iter_blocks():
        for s in blk["stmts"]:
            if s["k"] == "assign" and s["rv"]["k"] == "aggregate" and s["rv"].get("agg") == "closure" \
                    and norm(s["rv"]["closure"]) == clo.path:
                return parent, d, d.rvalue(s["rv"])
    return None


def upvar_origins(crate, clo, depth=0):
    """Origin term of every captured variable of closure `clo`, expressed in the nearest enclosing
    *function* (captures of intermediate closures are resolved through their own construction sites)."""
    site = closure_site(crate, clo)
    if site is None:
        return None
    parent, d, agg = site
    outs = []
    parent_up = None
    for o in agg[3]:
        o = local.peel(o)
        if o[0] == "upvar" and parent.kind == "closure" and depth < 4:
            if parent_up is None:
                po = upvar_origins(crate, parent, depth + 1)
                parent_up = {c["name"]: t for c, t in zip(parent.captures, po)} if po else {}
            o = parent_up.get(o[1], o)
        outs.append(o)
    return outs


def origin_config_field(t):
    """If origin term t is a read of <something>.config.<field> / config.<field> return the field name."""
    t = local.peel(t)
    if t[0] == "field" and t[3] == CONFIG:
        return t[1]
    return None


# --------------------------------------------------------------------------- CLS-1 decision table

NEG = {"\\d": "\\D", "\\w": "\\W", "\\s": "\\S"}


def documented_class(flags, member, precedence):
    """Oracle (documented precedence): flags = set of enabled tokens; member = {'\\d':bool,'\\w':bool,'\\s':bool}.
    Returns the token the code point must be rewritten to, or None (= stays literal)."""
    for tok in precedence:
        if tok not in flags:
            continue
        if tok in NEG:                      # positive class
            if member[tok]:
                return tok
        else:                               # negative class \D \W \S
            pos = [p for p, n in NEG.items() if n == tok][0]
            if not member[pos]:
                return tok
    return None


def _capture_valuations(ctx, crate, clo, field_role, rid):
    """-> function(set of enabled class tokens) -> {capture name of `clo`: bool}, tabulated from the abstract paths of the function in which the closure chain is built"""
    chain = [clo]
    while chain[-1].kind == "closure" and chain[-1].direct_parent and crate.body(chain[-1].direct_parent) is not None and crate.body(chain[-1].direct_parent).kind == "closure":
        chain.append(crate.body(chain[-1].direct_parent))
    outer = chain[-1]
    P = crate.body(outer.direct_parent) if outer.direct_parent else None
    if P is None or P.kind == "closure":
        return None
    names_outer = [c_["name"] for c_ in outer.captures]
    if any(c_["name"] not in names_outer for c_ in clo.captures):
        return None
    recs = []

    def on_call(m, st, name, args, t):
        for a in args:
            v = ccp.strip_ref(a)
            if isinstance(v, ccp.Agg) and v.kind == "closure" and v.label == outer.path:
                vals = []
                for f in v.fields:
                    x = ccp.strip_ref(f)
                    vals.append(m.resolve(st, x) if x is not None else None)
                recs.append((dict(st.facts), vals))
        return None
    try:
        ccp.Machine([crate], on_call=on_call, max_leaves=5000).run(P, None)
    except Exception:
        return None
    if not recs:
        return None
    me = ccp.Sym(P.locals[1].get("name") or "self")
    tok_of_field = {f: r[len("class:"):] for f, r in field_role.items()}

    def field_of(v):
        # self.config.<field>
        if isinstance(v, ccp.Fld) and v.name in tok_of_field:
            return v.name
        return None

    def fn(flags):
        out = None
        for facts, vals in recs:
            okr = True
            for f, tok in tok_of_field.items():
                for k, fv in facts.items():
                    if isinstance(fv, ccp.Const) and isinstance(k, tuple) and k and k[0] == "fld" and k[-1] == f:
                        if bool(fv.v) != (tok in flags):
                            okr = False
            if not okr:
                continue
            res = {}
            for nm, v in zip(names_outer, vals):
                if isinstance(v, ccp.Const) and isinstance(v.v, bool):
                    res[nm] = v.v
                elif field_of(v) is not None:
                    res[nm] = tok_of_field[field_of(v)] in flags
                else:
                    return None
            if out is not None and out != res:
                return None
            out = res
        if out is None:
            return None
        return {c_["name"]: out[c_["name"]] for c_ in clo.captures}
    return fn


def cls1(ctx, prog, crate, roles, rid="CLS-1"):
    """Decide the per-code-point substitution table of the class-conversion closure against the
    documented precedence on every feasible valuation.  Returns predicate -> class assignment or None."""
    import itertools
    clo, pred_class_by_table, info = classify_predicates(ctx, prog, crate)
    if clo is None:
        return None
    preds = info["preds"]
    ups = upvar_origins(crate, clo)
    if ups is None or len(ups) != len(clo.captures):
        ctx.anchor_lost(rid, "construction site of the class-conversion closure")
        return None
    field_role = {f: r for r, f in roles.items() if r.startswith("class:")}
    up_tok = {}
    derived = []
    for cap, t in zip(clo.captures, ups):
        f = origin_config_field(t)
        if f is None or f not in field_role:
            derived.append((cap["name"], t))
            continue
        up_tok[cap["name"]] = field_role[f][len("class:"):]
    capture_fn = None
    if derived:
        # some captured variables are *computed* from the settings (e.g. `let known = a || b`): their value per valuation of the six settings is read off the abstract
        # paths of the enclosing function at the point where the outermost closure is constructed
        capture_fn = _capture_valuations(ctx, crate, clo, field_role, rid)
        if capture_fn is None:
            ctx.undecided(rid, clo.path, "captured variable %s does not come from a class-conversion setting (%s) and its value could not be tabulated"
                          % (derived[0][0], local.show(derived[0][1])[:80]), clo.loc())
            return None
    if not derived and sorted(up_tok.values()) != sorted(list(NEG.keys()) + list(NEG.values())):
        ctx.violation(rid, (clo.path, "captures"), "closure does not read all six conversion settings exactly once: %s" % up_tok, clo.loc())
        return None
    pure_preds = set(preds)
    m = ccp.Machine([crate], pure=lambda n: True if n in pure_preds else None)
    env = ccp.Sym("env")
    cvar = ccp.Sym("c")
    leaves = m.run(clo, [env, cvar])
    bad = [l for l in leaves if l.kind != "return"]
    if bad:
        ctx.undecided(rid, clo.path, "non-returning abstract paths: %s" % ccp.leaves_summary(leaves), clo.loc())
        return None
    flag_key = {c_["name"]: ccp.Fld(env, c_["name"]).key() for c_ in clo.captures}
    pred_key = {p: ccp.Call(p, [cvar]).key() for p in preds}
    known_keys = set(flag_key.values()) | set(pred_key.values())
    for l in leaves:
        extra = [k for k in l.facts if k not in known_keys]
        if extra:
            ctx.undecided(rid, clo.path, "decision depends on something other than the six settings and three predicates: %s" % (l.label,), clo.loc())
            return None

    def leaf_for(val):
        hit = []
        for l in leaves:
            ok = True
            for k, v in l.facts.items():
                if val[k] != v.v:
                    ok = False
                    break
            if ok:
                hit.append(l)
        return hit

    def classify_ret(l):
        v = l.value
        if isinstance(v, ccp.Tmpl) and v.is_const():
            return v.text()
        if isinstance(v, ccp.Tmpl) and len(v.parts) == 1 and isinstance(v.parts[0], ccp.Hole) and v.parts[0].v.key() == cvar.key():
            return None    # c.to_string(): stays literal
        return ("?", ccp.show(v))

    # feasibility from the oracle tables (regex-syntax): which (d,w,s) memberships exist at all
    oracle = info["oracle"]
    if set(oracle) != set(NEG):
        return None
    feas = []
    allcp = [(0, tables.MAX_CP)]
    for d, w, s in itertools.product((False, True), repeat=3):
        cur = tables.difference(allcp, [(tables.SURR_LO, tables.SURR_HI)])
        for tok, b in (("\\d", d), ("\\w", w), ("\\s", s)):
            t = oracle[tok][1]
            cur = tables.intersect(cur, t) if b else tables.difference(cur, t)
        if cur:
            feas.append(({"\\d": d, "\\w": w, "\\s": s}, cur[0][0], tables.count(cur)))
    precedence = spec("api")["class_precedence"]
    best = None
    upnames = list(up_tok)
    all_toks = sorted(list(NEG.keys()) + list(NEG.values()))
    for perm in itertools.permutations(list(NEG.keys())):
        sigma = dict(zip(preds, perm))
        mism = []
        n = 0
        for bits in itertools.product((False, True), repeat=len(upnames) if capture_fn is None else 6):
            if capture_fn is None:
                flags = {up_tok[nm] for nm, b in zip(upnames, bits) if b}
                capvals = dict(zip(upnames, bits))
            else:
                flags = {tk for tk, b in zip(all_toks, bits) if b}
                capvals = capture_fn(flags)
                if capvals is None:
                    ctx.undecided(rid, clo.path, "the captured variables could not be evaluated for the settings %s" % sorted(flags), clo.loc())
                    return None
            for member, example_cp, _cnt in feas:
                val = {}
                for nm, b in capvals.items():
                    val[flag_key[nm]] = b
                for p in preds:
                    val[pred_key[p]] = member[sigma[p]]
                hit = leaf_for(val)
                n += 1
                if len(hit) != 1:
                    mism.append((sorted(flags), member, "ambiguous: %d leaves" % len(hit), None, example_cp))
                    continue
                got = classify_ret(hit[0])
                want = documented_class(flags, member, precedence)
                if got != want:
                    mism.append((sorted(flags), member, got, want, example_cp))
        if best is None or len(mism) < len(best[1]):
            best = (sigma, mism, n)
        if not mism:
            break
    sigma, mism, n = best
    ctx.extra["cls1_valuations"] = n
    ctx.extra["cls1_feasible_memberships"] = [{"member": m_, "example": tables.fmt_cp(cp), "code_points": cnt} for m_, cp, cnt in feas]
    if mism:
        f, member, got, want, cp = mism[0]
        ctx.violation(rid, (clo.path, "decision table"),
                      "substitution differs from the documented precedence on %d of %d feasible valuations; e.g. options %s, code point %s "
                      "(digit=%s word=%s space=%s): code yields %r, documentation requires %r" % (
                          len(mism), n, f, tables.fmt_cp(cp), member["\\d"], member["\\w"], member["\\s"],
                          got if got is not None else "the literal character", want if want is not None else "the literal character"),
                      clo.loc(), {"assignment": sigma})
        return None
    ctx.ok(rid, clo.path, {"valuations": n, "leaves": len(leaves), "assignment": sigma, "flags": up_tok}, clo.loc())
    return {"sigma": sigma, "info": info, "closure": clo, "up_tok": up_tok}


# --------------------------------------------------------------------------- guarded reachability

def unguarded_reach(lib, root, target, is_guarded):
    """Is `target` reachable from `root` through crate-local call sites none of which satisfies
    is_guarded(body, block, term)?  Returns the offending path (list of def-paths) or None."""
    from sa import callgraph
    cg = callgraph.CallGraph(lib)
    prev = {root: None}
    work = [root]
    while work:
        f = work.pop()
        if f == target:
            path = []
            while f is not None:
                path.append(f)
                f = prev[f]
            return list(reversed(path))
        body = lib.body(f)
        if body is None:
            continue
        nxt = set()
        for bi, t in body.calls():
            n = callee_name(t)
            cands = set()
            if n in lib.by_path:
                cands.add(n)
            # closures constructed here and conservative trait dispatch come from the call graph
            if is_guarded(body, bi, t):
                continue
            nxt |= cands
        # edges that are not direct calls (closures, impl dispatch): keep them, they carry no own guard
        direct = {callee_name(t) for _, t in body.calls()}
        for e in cg.edges.get(f, ()):
            if e not in direct:
                nxt.add(e)
        for n in nxt:
            if n not in prev:
                prev[n] = f
                work.append(n)
    return None


def guarded_by_field_true(field):
    from sa import guards as G

    def pred(body, bi, t):
        fi = G.FnInfo.of(body)
        for g in G.guards(body, bi):
            if g["loop"]:
                continue
            # the true edge must *dominate* the call (a disjunction `flag || other` does not)
            if origin_config_field(g["origin"]) == field and G.edge_truth(g) is True \
                    and fi.cfg.edge_dominates(g["block"], g["succ"], bi):
                return True
        return False
    return pred


def def1(ctx, crate, rid="DEF-1"):
    """DEF-1: every argument-less producer of the settings type that is used establishes the documented defaults: every boolean option off, both thresholds 1
    (the value the documentation and the CLI state, and the smallest value the setters accept).  Derived or trait producers (`Default`) count once something calls them."""
    from sa import guards
    cons = [b for b in crate.bodies if b.kind == "assoc_fn" and b.arg_count == 0 and b.sig_output == CONFIG
            and (not (b.derived or b.impl_trait) or guards.call_sites(crate, b.path))]
    all_prod = [b for b in crate.bodies if b.kind == "assoc_fn" and b.arg_count == 0 and b.sig_output == CONFIG]
    # a producer that other producers delegate to is in use even if nothing else calls it
    for b in list(cons):
        r0 = local.peel(local.Defs(b).local(0))
        if r0[0] == "call" and not r0[2]:
            cons += [c for c in all_prod if c.path == r0[1] and c not in cons]
    if not ctx.floor(rid, "argument-less constructors of the settings type", len([b for b in cons if not b.derived]), 1):
        return
    adt = crate.adts.get(CONFIG)
    names = [f["name"] for f in adt["variants"][0]["fields"]]
    tys = [norm(f["ty"]) for f in adt["variants"][0]["fields"]]

    def value(op, ty):
        o = local.peel(op)
        v = local.const_value(o)
        if v is None and o[0] == "call" and o[1].endswith("as std::default::Default>::default") and not o[2]:
            return False if ty == "bool" else (0 if re.match(r"^[ui](8|16|32|64|128|size)$", ty) else None)
        return v
    for b in cons:
        r = local.peel(local.Defs(b).local(0))
        if r[0] == "call" and not r[2] and any(r[1] == c.path for c in all_prod if c is not b):
            ctx.ok(rid, "%s:delegates to %s" % (b.path, r[1]), None, b.loc())
            continue
        if not (r[0] == "agg" and r[1] == "adt" and len(r[3]) == len(names)):
            ctx.undecided(rid, b.path, "the constructor does not return one struct literal", b.loc())
            continue
        bad = []
        for nme, ty, op in zip(names, tys, r[3]):
            v = value(op, ty)
            want = False if ty == "bool" else 1
            if v is None or v != want or (ty == "bool") != isinstance(v, bool):
                bad.append("%s = %s (documented default: %s)" % (nme, v, want))
        if bad:
            users = sorted({x[0].path for x in guards.call_sites(crate, b.path)})
            ctx.violation(rid, (b.path, "defaults"), "the settings constructor deviates from the documented defaults: %s: every build that does not call the corresponding setter behaves "
                          "as if the option had been requested%s" % ("; ".join(bad), (" (used by %s)" % ", ".join(users)) if users else ""), b.loc())
        else:
            ctx.ok(rid, b.path, {"fields": len(names)}, b.loc())
    # settings literals elsewhere (e.g. `RegExpConfig { minimum_repetitions: 0, ..RegExpConfig::new() }` in a builder constructor)
    prod = {b.path for b in cons}
    for b in crate.bodies:
        if b.derived or b.from_expansion or b.path in prod:
            continue
        d = None
        for bi, blk in b.iter_blocks():
            for st in blk["stmts"]:
                if not (st["k"] == "assign" and st["rv"]["k"] == "aggregate" and st["rv"].get("agg") == "adt" and norm(st["rv"].get("adt") or "") == CONFIG):
                    continue
                d = d or local.Defs(b)
                r = d.rvalue(st["rv"])
                bad, unk = [], []
                for nme, ty, op in zip(names, tys, r[3]):
                    o = local.peel(op)
                    v = value(op, ty)
                    want = False if ty == "bool" else 1
                    if v is not None:
                        if v != want or (ty == "bool") != isinstance(v, bool):
                            bad.append("%s = %s (documented default: %s)" % (nme, v, want))
                    elif o[0] == "field" and o[1] == nme:
                        continue        # copied from another settings value (functional update)
                    else:
                        unk.append(nme)
                if bad:
                    ctx.violation(rid, (b.path, "settings literal"), "a settings value is built with %s outside the settings constructor: builds from this constructor start from other "
                                  "defaults than builds from the others" % "; ".join(bad), b.loc(st.get("line")))
                elif unk:
                    ctx.undecided(rid, b.path, "settings literal with computed fields %s" % unk, b.loc(st.get("line")))
                else:
                    ctx.ok(rid, b.path + ":settings literal", None, b.loc(st.get("line")))
