"""Shared ccp analysis of `<RegExp as Display>::fmt` (used by C02, C04, C06, C08, C15)."""
import re

from sa import ccp
from . import common

SGR = re.compile("\x1b\\[(?:\\d+;\\d+|0)m")


def component_inline(name):
    return (name.startswith("component::Component::") or name == "<component::Component as std::fmt::Display>::fmt"
            or name.startswith("<quantifier::Quantifier as std::fmt::Display>"))


def find_regexp_fmt(lib):
    """The Display impl whose self type has exactly an expression and a settings reference."""
    for b in lib.bodies:
        if b.impl_trait == "std::fmt::Display" and b.path.endswith("::fmt") and b.impl_self and b.impl_self.startswith("regexp::RegExp"):
            return b
    return None


class FmtLeaf:
    def __init__(self, leaf, base, wrappers, flags, alt):
        self.leaf = leaf
        self.base = base            # ccp.Tmpl: literal skeleton with holes
        self.wrappers = wrappers    # [(callee, [args...])] applied to the skeleton, innermost first
        self.flags = flags          # role -> bool (only decided ones)
        self.alt = alt              # True: ast is the Alternation variant; False: not; None: undecided

    def prefix_suffix(self):
        """(literal text before the first hole, literal text after the last hole, holes)"""
        parts = self.base.parts
        holes = [p for p in parts if not isinstance(p, str)]
        pre = ""
        for p in parts:
            if isinstance(p, str):
                pre += p
            else:
                break
        suf = ""
        for p in reversed(parts):
            if isinstance(p, str):
                suf = p + suf
            else:
                break
        return pre, suf, holes


_cache = {}

REGEX_REPLACERS = ("regex::Regex::replace_all", "regex::Regex::replace", "regex::Regex::replacen")


def regex_pattern_text(v):
    """constant pattern text of `Regex::new(<const>).unwrap()` (through references / clones), else None"""
    for _ in range(8):
        if isinstance(v, ccp.Call) and v.args and (v.callee.endswith("::unwrap") or v.callee.endswith("::expect")
                                                    or v.callee.endswith("::clone") or v.callee.endswith("::deref")):
            v = v.args[0]
            continue
        break
    if isinstance(v, ccp.Call) and v.callee in ("regex::Regex::new",) and v.args:
        a = v.args[0]
        if isinstance(a, ccp.Tmpl) and a.is_const():
            return a.text()
    return None


def split_wrapper(v):
    """A string-to-string call around the formatted value -> (subject, callee, other arguments); None when `v` is no such call.
    The subject is the first argument, except for the regex crate's replacers (pattern object first, text second)."""
    if not isinstance(v, ccp.Call) or not v.args:
        return None
    if v.callee in REGEX_REPLACERS and len(v.args) >= 2 and isinstance(v.args[1], (ccp.Call, ccp.Tmpl)):
        return v.args[1], v.callee, [("regex", regex_pattern_text(v.args[0]))] + list(v.args[2:])
    if isinstance(v.args[0], (ccp.Call, ccp.Tmpl)):
        return v.args[0], v.callee, list(v.args[1:])
    return None


def regexp_fmt_leaves(ctx, lib, roles, rid="FMT"):
    key = id(lib)
    if key in _cache:
        return _cache[key]
    b = find_regexp_fmt(lib)
    if b is None:
        ctx.anchor_lost(rid, "<regexp::RegExp as Display>::fmt")
        _cache[key] = None
        return None
    m = ccp.Machine([lib], inline=component_inline)
    leaves = m.run(b, [ccp.Sym("self"), ccp.Sym("f")])
    field_role = {f: r for r, f in roles.items()}
    out = []
    alt_variant = None
    adt = lib.adts.get("expression::Expression")
    if adt:
        for i, v in enumerate(adt["variants"]):
            if v["name"] == "Alternation":
                alt_variant = i
    dkey = ccp.Discr(ccp.Fld(ccp.Sym("self"), "ast")).key()
    for l in leaves:
        if l.kind != "return":
            ctx.undecided(rid, b.path, "non-returning abstract path (%s)" % l.kind, b.loc())
            continue
        writes = [e for e in l.events if e["k"] == "write_fmt"]
        if len(writes) != 1:
            ctx.undecided(rid, b.path, "expected one write to the formatter, found %d" % len(writes), b.loc())
            continue
        v = writes[0]["value"]
        wrappers = []
        guard = 0
        while guard < 32:
            guard += 1
            if isinstance(v, ccp.Tmpl) and len(v.parts) == 1 and isinstance(v.parts[0], ccp.Hole):
                inner = v.parts[0].v
                # a hole that is itself the result of a string-to-string call (replace, indenter): look inside
                if isinstance(inner, ccp.Call) and not inner.callee.endswith("to_string") and split_wrapper(inner):
                    v = inner
                    continue
                break
            sw = split_wrapper(v)
            if sw:
                wrappers.append((sw[1], sw[2]))
                v = sw[0]
                continue
            break
        wrappers.reverse()
        if not isinstance(v, ccp.Tmpl):
            ctx.undecided(rid, b.path, "formatted value is not a template: %s" % ccp.show(v), b.loc())
            continue
        flags = {}
        for k, f in l.facts.items():
            if k[0] == "fld" and k[1] == ccp.Fld(ccp.Sym("self"), "config").key() and isinstance(f, ccp.Const):
                r = field_role.get(k[2])
                if r is None:
                    flags["?" + k[2]] = f.v
                else:
                    flags[r] = f.v
        alt = None
        f = l.facts.get(dkey)
        if isinstance(f, ccp.Const) and alt_variant is not None:
            alt = (f.v == alt_variant)
        elif dkey in [None]:
            pass
        else:
            for atom, val in l.label:
                if atom == "discr(self.ast)" and val.startswith("not in") and alt_variant is not None:
                    alt = not (str(alt_variant) in re.findall(r"\d+", val))
        out.append(FmtLeaf(l, v, wrappers, flags, alt))
    res = {"body": b, "leaves": out}
    _cache[key] = res
    return res


def strip_sgr(s):
    return SGR.sub("", s)


SKEL_PRE = re.compile(r"^(\(\?ix\)|\(\?i\)|\(\?x\))?(\^)?(\(\?:|\()?$")
SKEL_SUF = re.compile(r"^(\))?(\$)?$")


def parse_skeleton(fl):
    """-> dict(flag, caret, open, close, dollar, raw_pre, raw_suf) or (None, why). Colour codes are removed; in verbose mode
    line breaks are removed too (insignificant under (?x))."""
    pre, suf, holes = fl.prefix_suffix()
    if len(holes) != 1:
        return None, "expected exactly one non-literal part (the expression), found %d" % len(holes)
    h = holes[0]
    hv = h.v if isinstance(h, ccp.Hole) else h
    if isinstance(hv, ccp.Call) and hv.callee.endswith("to_string") and hv.args:
        hv = hv.args[0]
    if not (isinstance(hv, ccp.Fld) and hv.name == "ast"):
        # to_tmpl() of an opaque value: Hole(Fld(self, ast)) or Hole(Call(to_string,..))
        return None, "the non-literal part is %s, not the expression" % ccp.show(h)
    p, s = strip_sgr(pre), strip_sgr(suf)
    if "\x1b" in p or "\x1b" in s:
        return None, "colour sequence not of the SGR form ESC[<n;m|0>m"
    if fl.flags.get("verbose"):
        p, s = p.replace("\n", ""), s.replace("\n", "")
    mp, ms = SKEL_PRE.match(p), SKEL_SUF.match(s)
    if not mp or not ms:
        return None, "literal skeleton %r ... %r is not <flag><^><group-open> ... <)><$>" % (p, s)
    return {"flag": mp.group(1) or "", "caret": bool(mp.group(2)), "open": mp.group(3) or "", "close": bool(ms.group(1)),
            "dollar": bool(ms.group(2)), "raw_pre": pre, "raw_suf": suf}, None


def wrapper_patterns(fl):
    """[(callee, set of pattern characters, replacement text or None)] for the str::replace wrappers."""
    out = []
    for callee, args in fl.wrappers:
        if not callee.endswith("::replace") or len(args) < 2:
            out.append((callee, None, None))
            continue
        pat, to = args[0], args[1]
        chars = None
        if isinstance(pat, ccp.CharV):
            chars = {pat.c}
        elif isinstance(pat, ccp.Agg) and all(isinstance(x, ccp.CharV) for x in pat.fields):
            chars = {x.c for x in pat.fields}
        elif isinstance(pat, ccp.Tmpl) and pat.is_const():
            chars = {"str:" + pat.text()}
        rep = to.text() if isinstance(to, ccp.Tmpl) and to.is_const() else None
        out.append((callee, chars, rep))
    return out


def innermost_tmpl(v):
    """Peel string-to-string wrappers (replace chains, indenter) off a written value down to the literal skeleton."""
    for _ in range(64):
        if isinstance(v, ccp.Tmpl) and len(v.parts) == 1 and isinstance(v.parts[0], ccp.Hole):
            inner = v.parts[0].v
            if isinstance(inner, ccp.Call) and not inner.callee.endswith("to_string") and split_wrapper(inner):
                v = inner
                continue
            return v
        sw = split_wrapper(v)
        if sw:
            v = sw[0]
            continue
        return v
    return v


def cas1(ctx, lib, roles):
    """CAS-1: the flag group is (?ix)/(?i)/(?x)/empty exactly per the case and verbose settings."""
    r = regexp_fmt_leaves(ctx, lib, roles)
    if not r:
        return
    b = r["body"]
    n = 0
    for fl in r["leaves"]:
        sk, why = parse_skeleton(fl)
        if sk is None:
            ctx.violation("CAS-1", (b.path, "skeleton"), "%s [settings %s]" % (why, fl.flags), b.loc())
            continue
        v, ci = fl.flags.get("verbose"), fl.flags.get("ignore_case")
        want = {(True, True): "(?ix)", (True, False): "(?i)", (False, True): "(?x)", (False, False): ""}.get((bool(ci), bool(v)))
        if v is None or ci is None:
            ctx.undecided("CAS-1", b.path, "a path does not test both the verbose and the case setting", b.loc())
        elif sk["flag"] != want:
            ctx.violation("CAS-1", (b.path, "flag"), "flag group is %r, expected %r for settings %s" % (sk["flag"], want, fl.flags), b.loc())
        else:
            n += 1
            ctx.ok("CAS-1", "%s|ci=%s,x=%s|%s" % (b.path, ci, v, ",".join("%s=%d" % kv for kv in sorted(fl.flags.items()))), {"flag": want}, b.loc())
    ctx.floor("CAS-1", "abstract paths of RegExp::fmt", n, 48)


# ----------------------------------------------------------------------------- origin-based view of str::replace passes

def iter_elements(o, depth=0):
    """Elements (python chars/ints/strs) of a constant iterable given as an origin tree, or None."""
    from sa import local
    if depth > 12 or not isinstance(o, tuple):
        return None
    o = local.peel(o)
    k = o[0]
    if local.is_const(o):
        v = local.const_value(o)
        return list(v) if isinstance(v, (list, tuple)) else None
    if k == "agg" and o[1] == "array":
        vals = [local.const_value(local.peel(x)) for x in o[3]]
        return vals if all(v is not None for v in vals) else None
    if k == "agg" and o[1] == "adt" and o[2] and o[2].startswith("std::ops::Range"):
        vals = [local.const_value(local.peel(x)) for x in o[3][:2]]
        if all(isinstance(v, str) and len(v) == 1 for v in vals):
            a, b = ord(vals[0]), ord(vals[1]) + (1 if "RangeInclusive" in o[2] else 0)
            return [chr(x) for x in range(a, b) if not (0xD800 <= x <= 0xDFFF)] if b - a <= 4096 else None
        return None
    if k == "cast":
        return iter_elements(o[1], depth + 1)
    if k == "call":
        seg = o[1].rsplit("::", 1)[-1]
        if seg in ("into_iter", "iter", "copied", "cloned", "by_ref") and o[2]:
            return iter_elements(o[2][0], depth + 1)
        if seg == "chain" and len(o[2]) == 2:
            a, b = iter_elements(o[2][0], depth + 1), iter_elements(o[2][1], depth + 1)
            return a + b if a is not None and b is not None else None
        if seg == "rev" and o[2]:
            a = iter_elements(o[2][0], depth + 1)
            return list(reversed(a)) if a is not None else None
        if seg == "new" and "RangeInclusive" in o[1] and len(o[2]) == 2:
            vals = [local.const_value(local.peel(x)) for x in o[2]]
            if all(isinstance(v, str) and len(v) == 1 for v in vals):
                return [chr(x) for x in range(ord(vals[0]), ord(vals[1]) + 1) if not (0xD800 <= x <= 0xDFFF)]
    return None


def loop_item_source(o):
    """If origin `o` is the element yielded by `next()` of an iterator, return the iterator's origin."""
    from sa import local
    for x in local.walk(o):
        if x[0] == "call" and x[1].endswith("::next") and x[2]:
            return x[2][0]
    return None


def replace_sites(lib, body):
    """Every str::replace call of `body`: which characters it can rewrite and to what (resolved through loops over constant iterables)."""
    from sa import guards as G, local
    from sa.facts import callee_name
    fi = G.FnInfo.of(body)
    d = fi.defs
    out = []
    for bi, t in body.calls():
        n = callee_name(t) or ""
        if not n.endswith("<impl str>::replace") or len(t["args"]) != 3:
            continue
        pat = d.operand(t["args"][1])
        rep = d.operand(t["args"][2])
        chars = None
        item_src = None
        pv = local.const_value(local.peel(pat))
        if isinstance(pv, str) and len(pv) == 1:
            chars = [pv]
        elif isinstance(pv, list) and all(isinstance(x, str) and len(x) == 1 for x in pv):
            chars = list(pv)
        else:
            arr = iter_elements(pat)
            if arr is not None and all(isinstance(x, str) and len(x) == 1 for x in arr):
                chars = list(arr)          # array literal passed by value
            else:
                item_src = loop_item_source(pat)
                if item_src is not None:
                    els = iter_elements(item_src)
                    if els is not None and all(isinstance(x, str) and len(x) == 1 for x in els):
                        chars = list(els)
        rv = local.const_value(local.peel(rep))
        if isinstance(rv, str):
            repk = ("const", rv)
        else:
            shown = local.show(rep)
            src2 = loop_item_source(rep)
            same_item = item_src is not None and src2 is not None and local.show(src2) == local.show(item_src)
            if same_item and any(x[0] == "call" and x[1].endswith("<impl char>::escape_unicode") for x in local.walk(rep)) \
                    and not any(x[0] == "call" and x[1].endswith("::replace") for x in local.walk(rep)):
                repk = ("escape_unicode_of_item",)
            else:
                repk = ("unknown", shown[:120])
        gs = [g for g in G.guards(body, bi) if not g["loop"]]
        out.append({"block": bi, "line": t.get("line"), "chars": chars, "rep": repk, "guards": gs,
                    "in_loop": bool(fi.cfg.loops_containing(bi))})
    return out
