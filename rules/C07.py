"""C07 — build() is total; panics only where documented (panic discipline)."""
import re

from sa import callgraph, ccp, guards, local
from sa.facts import callee_name, norm
from . import common

BUILD = common.BUILDER + "::build"
EXPLICIT_PANIC = re.compile(r"^(?:std::rt::(?:panic_fmt|panic_display|begin_panic)|core::panicking::(?:panic|panic_fmt|panic_display|panic_explicit|"
                            r"unreachable_display|assert_failed|assert_matches_failed|panic_nounwind)|std::process::(?:exit|abort))")
RESULT_UNWRAP = re.compile(r"^std::result::Result::<T, E>::(?:unwrap|expect|unwrap_err|expect_err|unwrap_unchecked)$")
OPTION_UNWRAP = re.compile(r"^std::option::Option::<T>::(?:unwrap|expect|unwrap_unchecked)$")


def explicit_panics(lib, only=None):
    out = []
    for b in lib.bodies:
        if only is not None and b.path not in only:
            continue
        if b.derived:
            continue
        for bi, t in b.calls():
            n = callee_name(t) or ""
            if EXPLICIT_PANIC.match(n):
                out.append((b, bi, t, n))
    return out


def pan1(ctx, lib):
    api = common.spec("api")
    eff = common.setter_effects(lib)
    want = {"from": (api["constructor_panic"], "is_empty")}
    for s, d in api["setters"].items():
        if d.get("panic_if_zero"):
            want[s] = (d["panic_if_zero"], "zero")
    for name, (msg, kind) in want.items():
        e = eff.get(name)
        fn = common.BUILDER + "::" + name
        if e is None or not e["leaves"]:
            ctx.anchor_lost("PAN-1", fn)
            continue
        body = e["body"]
        pan = [l for l in e["leaves"] if l.kind in ("panic", "diverge")]
        ret = [l for l in e["leaves"] if l.kind == "return"]
        if len(pan) != 1 or len(ret) != 1:
            ctx.violation("PAN-1", (fn, "paths"), "expected exactly one panicking and one returning path, found %d/%d" % (len(pan), len(ret)), body.loc())
            continue
        pl, rl = pan[0], ret[0]
        args = (pl.info or {}).get("args") or []
        got = None
        for a in args:
            if isinstance(a, ccp.Tmpl) and a.is_const():
                got = a.text()
        if got != msg:
            ctx.violation("PAN-1", (fn, "message"), "panic message is %r, documented: %r" % (got, msg), body.loc())
            continue
        # the panic condition: exactly one fact, true on the panic path and false on the return path
        if len(pl.label) != 1 or len(rl.label) != 1 or pl.label[0][0] != rl.label[0][0]:
            ctx.violation("PAN-1", (fn, "condition"), "panic condition is not a single test: %s / %s" % (pl.label, rl.label), body.loc())
            continue
        atom, val = pl.label[0]
        if kind == "zero":
            good = re.match(r"^Eq\((\w+), 0\)$", atom) and val == "True" or re.match(r"^(?:Lt|Le)\((\w+), [01]\)$", atom) and val == "True" \
                or re.match(r"^Ne\((\w+), 0\)$", atom) and val == "False" or re.match(r"^Gt\((\w+), 0\)$", atom) and val == "False"
            if atom.startswith("Le(") and atom.endswith(", 1)"):
                good = False
        else:
            good = ("is_empty(" in atom and val == "True")
        if not good:
            ctx.violation("PAN-1", (fn, "condition"), "panics when %s is %s; documented: only for %s" % (atom, val, "an empty list" if kind != "zero" else "zero"), body.loc())
            continue
        ctx.ok("PAN-1", fn, {"panics_iff": "%s == %s" % (atom, val), "message": msg}, body.loc())


def run(ctx):
    ctx.rule("PAN-1", "ccp: RegExpBuilder::from / with_minimum_repetitions / with_minimum_substring_length panic on exactly one path, guarded by the "
                      "documented condition alone, with the documented message; the other path performs the write/construction")
    ctx.rule("PAN-2", "no explicit panic!/unreachable!/assert!/exit in crate functions reachable from build() (positive control: the same matcher "
                      "finds the documented panics of builder.rs)")
    ctx.rule("PAN-3", "Result::unwrap/expect reachable from build() only on Regex::new of a constant pattern")
    ctx.rule("PAN-4", "guarded sites keep their guard: Vec::splice under range.end <= len; slicing ..j under len >= j")
    ctx.rule("PAN-5", "inventory (evidence only) of all panic-capable sites reachable from build()")
    ctx.assume("the regex crate rejects some printed patterns by contract (surrogates), so a dynamic Regex::new(..).unwrap() can panic")
    prog = common.view(ctx, "default")
    lib = prog.lib
    cg = callgraph.CallGraph(lib)
    reach = cg.reachable([BUILD])
    pan1(ctx, lib)
    # PAN-2
    allp = explicit_panics(lib)
    ctx.floor("PAN-2", "explicit panic sites in the crate (positive control)", len(allp), 7)
    for b, bi, t, n in allp:
        if b.path in reach:
            ctx.violation("PAN-2", (b.path, n), "explicit panic reachable from build() (%s)" % ",".join(t.get("macros", [])[-1:]), b.loc(t.get("line")))
    ctx.ok("PAN-2", "functions reachable from build()", {"functions": len(reach), "explicit_panics_elsewhere": len(allp)})
    # PAN-3
    nres = 0
    for b in lib.bodies:
        if b.path not in reach or b.derived:
            continue
        d = None
        for bi, t in b.calls():
            n = callee_name(t) or ""
            if not RESULT_UNWRAP.match(n):
                continue
            nres += 1
            d = d or local.Defs(b)
            o = local.peel(d.operand(t["args"][0]))
            const_regex = False
            if o[0] == "call" and o[1] == "regex::Regex::new":
                pat = local.peel(o[2][0])
                if isinstance(local.const_value(pat), str):
                    const_regex = True
            if const_regex:
                ctx.ok("PAN-3", "%s:%s(Regex::new(<constant>))" % (b.path, n.rsplit("::", 1)[-1]), {"pattern": local.const_value(pat)}, b.loc(t.get("line")))
            else:
                ctx.violation("PAN-3", (b.path, "Result::unwrap of a run-time result"),
                              "unwrap of a fallible result computed from run-time data (%s): build() panics when it is Err" % local.show(o)[:160],
                              b.loc(t.get("line")))
    ctx.floor("PAN-3", "Result::unwrap sites inspected", nres, 1)
    # PAN-4
    pan4(ctx, lib, reach)
    # RAW-1 (shared with C01): an unescaped class member can make the pattern syntactically invalid ([Z-\])
    from . import classprinter
    from .C01 import class_escape_closures
    ctx.rule("RAW-1", "in the bracket-class printer no member is formatted as a raw char outside the class escaper (a raw backslash or bracket makes the pattern invalid)")
    classprinter.raw1(ctx, lib, class_escape_closures(lib))
    # ESC-3 (shared with C01): an unescaped metacharacter in a nested repetition makes the pattern invalid
    from .C01 import esc3, esc4
    ctx.rule("ESC-3", "if the grapheme printer is recursive over nested repetitions, escaping descends as deep, on every path")
    ctx.rule("ESC-4", "the printer prints a grapheme's own text only where it was escaped: under the same emptiness test of the nested repetitions that the escaping dispatch uses")
    esc3(ctx, lib)
    esc4(ctx, lib)
    # VWS-1/2 (shared with C06): under (?x) every ignored character is rewritten to an escape of exactly itself, in literals and in bracket classes
    from .C06 import vws
    ctx.rule("VWS-1", "on every verbose path each character the engine ignores under (?x) (White_Space, '#') is rewritten, in literals and as a bracket-class member")
    ctx.rule("VWS-2", "each such rewrite denotes exactly the character it replaces")
    vws(ctx, prog, lib, common.role_fields(ctx, lib, want=common.FMT_ROLES), with_cas=False)
    # ESCP-2 (b), shared with C11: the literal printer applies the escaper on every path before it prints a grapheme
    from .C11 import literal_printer_escapes
    from .C01 import find_escape_entry as _fee
    ctx.rule("ESCP-2", "every literal is escaped before printing: the literal printer calls the symbol escaper on the grapheme or on each of its repetitions on every path")
    _hits = _fee(lib)
    if len(_hits) == 1:
        literal_printer_escapes(ctx, lib, _hits[0])
    else:
        ctx.anchor_lost("ESCP-2", "symbol escaper")
    # PAN-6 capacity of the automaton's index type
    ctx.rule("PAN-6", "every node/edge insertion into the automaton's graph uses an index type of at least 32 bits: petgraph panics when the index space is exhausted, "
                      "and the trie has one state per distinct prefix of the test cases (thousands of test cases exceed 65535)")
    n6 = 0
    for b in lib.bodies:
        if b.derived:
            continue
        for bi, t in b.calls():
            n = callee_name(t) or ""
            if re.search(r"^petgraph::.*::(?:add_node|add_edge|update_edge)$", n):
                targs = [norm(x) for x in (t["callee"].get("res_args") or t["callee"].get("args") or [])]
                ix = targs[-1] if targs else None
                n6 += 1
                if ix in ("u32", "u64", "usize", "u128"):
                    ctx.ok("PAN-6", "%s:%s<Ix=%s>" % (b.path, n.rsplit("::", 1)[-1], ix), None, b.loc(t.get("line")))
                elif ix in ("u8", "u16"):
                    ctx.violation("PAN-6", (b.path, n.rsplit("::", 1)[-1] + " index type"),
                                  "the automaton's graph is indexed by %s: inserting state/edge number %d panics inside petgraph, so build() panics for test cases with more "
                                  "distinct prefixes than that" % (ix, 2 ** (8 if ix == "u8" else 16) - 1), b.loc(t.get("line")))
                else:
                    ctx.undecided("PAN-6", b.path, "cannot read the index type of %s (%s)" % (n, targs), b.loc(t.get("line")))
    ctx.floor("PAN-6", "insertions into the automaton's graph", n6, 2)
    # PAN-7: arithmetic on a user-chosen threshold
    ctx.rule("PAN-7", "no overflow-checked arithmetic or division reachable from build() has an operand computed from a threshold setting: any positive u32 is a legal "
                      "threshold, so `setting + 1` panics for u32::MAX (and wraps to a division by zero in release builds)")
    thr_fields = {f for r, f in common.role_fields(ctx, lib, want=("min_repetitions", "min_substring_length")).items() if r in ("min_repetitions", "min_substring_length")}
    n7 = 0
    for b in lib.bodies:
        if b.path not in reach and not (b.kind == "closure" and b.parent in reach):
            continue
        d7 = None
        for bi, blk in b.iter_blocks():
            t = blk.get("term")
            if not t or t["k"] != "assert" or not re.match(r"^(?:Overflow|DivisionByZero|RemainderByZero)", t["kind"]):
                continue
            d7 = d7 or local.Defs(b)
            n7 += 1
            ops = []
            for key in ("cond", "args", "ops", "a", "b"):
                v = t.get(key)
                if isinstance(v, dict):
                    ops.append(v)
                elif isinstance(v, list):
                    ops += [x for x in v if isinstance(x, dict)]
            hit = None
            for op in ops:
                try:
                    o = d7.operand(op)
                except Exception:
                    continue
                flds = [x[1] for x in local.walk(o) if x[0] == "field" and x[3] == common.CONFIG and x[1] in thr_fields]
                if flds and t["kind"].startswith(("DivisionByZero", "RemainderByZero")) and not any(x[0] == "binop" for x in local.walk(o)):
                    continue        # dividing by the setting itself: positive by the documented panics (PAN-1)
                if flds:
                    hit = flds[0]
            if hit:
                ctx.violation("PAN-7", (b.path, "%s on %s" % (t["kind"].split("(")[0], hit)),
                              "%s is computed from the threshold setting `%s`: for the legal value u32::MAX the checked operation panics (debug) or wraps (release), so build() is "
                              "not total over all positive thresholds" % (t["kind"], hit), b.loc(t.get("line")))
    ctx.ok("PAN-7", "arithmetic asserts reachable from build()", {"asserts_scanned": n7, "threshold_fields": sorted(thr_fields)})
    # PAN-5 inventory
    inv = {}
    for b in lib.bodies:
        if b.path not in reach:
            continue
        for bi, blk in b.iter_blocks():
            t = blk.get("term")
            if not t:
                continue
            kind = None
            if t["k"] == "assert" and t["kind"] not in ("MisalignedPointerDereference", "NullPointerDereference"):
                kind = "assert:" + t["kind"]
            elif t["k"] == "call":
                n = callee_name(t) or ""
                if OPTION_UNWRAP.match(n):
                    kind = "Option::unwrap"
                elif re.search(r"(?:Index|IndexMut)<I>.*::index(?:_mut)?$|::index$|::index_mut$", n) and "NodeIndex" not in n:
                    kind = "indexing"
                elif re.search(r"Vec::<T, A>::(?:remove|insert|drain|splice|swap_remove|split_off)$|rotate_(?:left|right)$", n):
                    kind = "vec-op:" + n.rsplit("::", 1)[-1]
            if kind:
                inv.setdefault(kind, {}).setdefault(b.path, 0)
                inv[kind][b.path] += 1
    ctx.extra["panic_capable_inventory"] = {k: {"sites": sum(v.values()), "functions": v} for k, v in sorted(inv.items())}
    ctx.ok("PAN-5", "inventory", {k: sum(v.values()) for k, v in inv.items()})


def pan4(ctx, lib, reach):
    n = 0
    for b in lib.bodies:
        if b.path not in reach:
            continue
        for bi, t in b.calls():
            name = callee_name(t) or ""
            if name.endswith("Vec::<T, A>::splice"):
                n += 1
                d = guards.FnInfo.of(b).defs
                vec = local.peel(d.operand(t["args"][0]))
                ok = False
                for g in guards.guards(b, bi):
                    o = g["origin"]
                    if g["loop"] or o[0] != "binop":
                        continue
                    a, c = o[2], o[3]
                    # range.end > vec.len()  on the false edge   (or equivalent)
                    def is_end(x):
                        return any(y[0] == "field" and y[1] == "end" for y in local.walk(x))

                    def is_len(x):
                        x = local.peel(x)
                        return x[0] == "call" and x[1].endswith("::len") and local.peel(x[2][0]) == vec
                    truth = guards.edge_truth(g)
                    if is_end(a) and is_len(c) and ((o[1] == "Gt" and truth is False) or (o[1] == "Le" and truth is True)):
                        ok = True
                    if is_len(a) and is_end(c) and ((o[1] == "Lt" and truth is False) or (o[1] == "Ge" and truth is True)):
                        ok = True
                if ok:
                    ctx.ok("PAN-4", b.path + ":splice within bounds", None, b.loc(t.get("line")))
                else:
                    ctx.violation("PAN-4", (b.path, "Vec::splice"), "splice is not dominated by the check range.end <= vec.len(): it panics on an out-of-range repetition", b.loc(t.get("line")))
            elif re.search(r"Index<I> for \[T\]>::index$", name) and "RangeTo" in " ".join(t["callee"].get("res_args") or t["callee"].get("args") or []):
                n += 1
                d = guards.FnInfo.of(b).defs
                sl = local.peel(d.operand(t["args"][0]))
                rng = d.operand(t["args"][1])
                end = None
                for y in local.walk(rng):
                    if y[0] == "agg" and y[2] and "RangeTo" in y[2]:
                        end = y[3][0]
                ok = False
                for g in guards.guards(b, bi):
                    o = g["origin"]
                    if g["loop"] or o[0] != "binop":
                        continue
                    truth = guards.edge_truth(g)

                    def is_len(x):
                        x = local.peel(x)
                        return x[0] == "call" and x[1].endswith("::len") and local.peel(x[2][0]) == sl
                    if is_len(o[2]) and o[3] == end and ((o[1] == "Ge" and truth is True) or (o[1] == "Lt" and truth is False)):
                        ok = True
                    if is_len(o[3]) and o[2] == end and ((o[1] == "Le" and truth is True) or (o[1] == "Gt" and truth is False)):
                        ok = True
                if ok:
                    ctx.ok("PAN-4", b.path + ":slice ..j within bounds", None, b.loc(t.get("line")))
                else:
                    ctx.violation("PAN-4", (b.path, "slice[..j]"), "slicing is not dominated by the check slice.len() >= j", b.loc(t.get("line")))
    ctx.floor("PAN-4", "guarded splice/slice sites", n, 2)
