"""PLB-1 — flag plumbing: every presentation role site receives exactly its own setting.

Backward value-flow (sa.vflow) from each role site through locals, parameters (all call sites), positional bool
fields of Expression/Grapheme/Component (all construction sites) and closure captures must end only in the one
expected RegExpConfig field or in boolean constants."""
from sa import guards, local, vflow
from sa.facts import callee_name, norm
from . import common

_cache = {}


def graph(lib):
    if id(lib) not in _cache:
        _cache[id(lib)] = vflow.VFlow(lib)
    return _cache[id(lib)]


def config_field_index(lib):
    adt = lib.adts.get(common.CONFIG)
    return {f["name"]: i for i, f in enumerate(adt["variants"][0]["fields"])} if adt else {}


def classify(lib, g, node, idx2name):
    """-> (set of config field names, set of constants, list of other terminal nodes)"""
    cfgname = common.CONFIG
    srcs, n = g.sources(node, stop=lambda x: x[0] == "F" and x[1] == cfgname)
    fields, consts, other = set(), set(), []
    for s in srcs:
        if s[0] == "F" and s[1] == cfgname:
            fields.add(idx2name.get(s[3], "#%d" % s[3]))
        elif s[0] == "C":
            consts.add(s[1])
        else:
            other.append(s)
    return fields, consts, other, n


def find_to_repr(lib):
    cands = [b for b in lib.bodies if b.kind == "assoc_fn" and b.sig_inputs == ["&component::Component", "bool"] and b.sig_output == "std::string::String"]
    for b in cands:
        callees = {callee_name(t) for _, t in b.calls()}
        if any(c.path in callees for c in cands if c is not b):
            return b
    return None


def atom_node(lib, fn_path, key):
    """map a ccp atom key of function fn_path to a vflow node"""
    b = lib.body(fn_path)
    if key[0] == "sym":
        for i in range(1, b.arg_count + 1):
            if b.locals[i].get("name") == key[1] or key[1] == "arg%d" % i:
                return ("L", b.path, i)
    if key[0] == "fld" and key[1][0] == "sym":
        base = key[1][1]
        # closure environment
        if b.kind == "closure":
            for i, c in enumerate(b.captures):
                if c["name"] == key[2]:
                    return ("U", b.path, i)
        # field of self
        for i in range(1, b.arg_count + 1):
            if b.locals[i].get("name") == base or base == "arg%d" % i:
                ty = b.local_ty(i).lstrip("&").replace("mut ", "")
                adt = lib.adts.get(ty)
                if adt:
                    for fi, f in enumerate(adt["variants"][0]["fields"]):
                        if f["name"] == key[2]:
                            return ("F", ty, adt["variants"][0]["name"], fi)
    if key[0] == "fld" and key[1][0] == "fld":
        # self.config.<field>
        idx = config_field_index(lib)
        if key[2] in idx:
            return ("F", common.CONFIG, "RegExpConfig", idx[key[2]])
    return None


def field_of_guard(lib, g):
    """config field (or same-named plain-data field fed only by it) tested by a guard"""
    f = common.origin_config_field(g["origin"])
    if f is not None:
        return f
    o = local.peel(g["origin"])
    if o[0] == "field" and o[3] in lib.adts:
        # e.g. self.is_output_colorized of Grapheme: resolve through the flow graph
        adt = lib.adts[o[3]]
        for vi, v in enumerate(adt["variants"]):
            for fi, fld in enumerate(v["fields"]):
                if fld["name"] == o[1] and (o[4] is None or o[4] == v["name"]):
                    idx = config_field_index(lib)
                    fields, consts, other, _ = classify(lib, graph(lib), ("F", o[3], v["name"], fi), {v2: k for k, v2 in idx.items()})
                    if len(fields) == 1 and not other:
                        return list(fields)[0]
    return None


def check(ctx, lib, roles, deciders, want=("capture", "verbose", "colour", "escape", "surrogate")):
    rid = "PLB-1"
    g = graph(lib)
    name2idx = config_field_index(lib)
    idx2name = {v: k for k, v in name2idx.items()}
    spec = common.spec("roles")
    sinks = []   # (role, description, node, loc)

    if "colour" in want:
        tr = find_to_repr(lib)
        if tr is None:
            ctx.anchor_lost(rid, "Component::to_repr (renderer choosing coloured vs plain)")
        else:
            n = 0
            for body, blk, term in guards.call_sites(lib, tr.path):
                node = g.operand_node(body, term["args"][1])
                sinks.append(("colour", "%s: colour argument of %s #bb%d" % (body.path, tr.path, blk), node, body.loc(term.get("line"))))
                n += 1
            ctx.floor(rid, "call sites of the colour-selecting renderer", n, 8)
    if "capture" in want:
        for fn, key in (deciders or {}).items():
            node = atom_node(lib, fn, key)
            if node is None:
                ctx.undecided(rid, fn, "cannot map the group-kind decider %s to a value-flow node" % (key,))
                continue
            sinks.append(("capture", "%s: boolean deciding the group kind" % fn, node, lib.body(fn).loc()))
        ctx.floor(rid, "group-kind deciders", len(deciders or {}), 1)
    if "verbose" in want:
        n = 0
        for b in lib.bodies:
            if b.derived:
                continue
            for bi, blk in b.iter_blocks():
                for s in blk["stmts"]:
                    if s["k"] == "assign" and s["rv"]["k"] == "aggregate" and s["rv"].get("agg") == "adt" and norm(s["rv"]["adt"]) == "component::Component":
                        v = s["rv"]["variant"]
                        if v in spec["component_verbose_field"]:
                            i = spec["component_verbose_field"][v]
                            node = g.operand_node(b, s["rv"]["ops"][i])
                            sinks.append(("verbose", "%s: line-break flag of Component::%s" % (b.path, v), node, b.loc(s.get("line"))))
                            n += 1
        ctx.floor(rid, "constructions of components with a line-break flag", n, len(spec["component_verbose_field"]))
    if "escape" in want or "surrogate" in want:
        from .C01 import find_escape_entry
        for S in find_escape_entry(lib):
            bps = [i for i, ty in enumerate(S.sig_inputs) if ty == "bool"]
            for body, blk, term in guards.call_sites(lib, S.path):
                if len(bps) >= 2:
                    sinks.append(("escape", "%s: escape flag of %s" % (body.path, S.path), g.operand_node(body, term["args"][bps[0]]), body.loc(term.get("line"))))
                    sinks.append(("surrogate", "%s: surrogate flag of %s" % (body.path, S.path), g.operand_node(body, term["args"][bps[1]]), body.loc(term.get("line"))))
    nchecked = 0
    for role, desc, node, loc_ in sinks:
        if role not in want:
            continue
        expect = roles.get(role)
        if node is None:
            ctx.undecided(rid, desc, "no value-flow node")
            continue
        fields, consts, other, visited = classify(lib, g, node, idx2name)
        bad_fields = sorted(f for f in fields if f != expect)
        bad_other = []
        for o in other:
            # `flag && <computed>`: a computed value is an accepted narrowing if it is only evaluated under the expected setting being true
            if o[0] == "X" and len(o) == 4 and lib.body(o[1]) is not None:
                gs = guards.guards(lib.body(o[1]), o[3])
                if any(field_of_guard(lib, g) == expect and guards.edge_truth(g) is True for g in gs):
                    continue
            bad_other.append(o)
        nchecked += 1
        if bad_fields:
            ctx.violation(rid, (desc.split(": ")[0], role, ",".join(bad_fields)),
                          "%s can receive setting(s) %s; it must only ever carry `%s` (%s role): two positional flags are crossed somewhere on the way"
                          % (desc, bad_fields, expect, role), loc_)
        elif bad_other:
            ctx.violation(rid, (desc.split(": ")[0], role, "non-setting source"),
                          "%s can receive a value that is neither the `%s` setting nor a constant: %s" % (desc, expect, bad_other[:3]), loc_)
        elif not fields and role != "capture" and consts <= {"False", "True", "0", "1"}:
            # constant-only sites are fine (e.g. char_count(false))
            ctx.ok(rid, desc, {"sources": sorted(consts)}, loc_)
        else:
            ctx.ok(rid, desc, {"sources": sorted(fields) + sorted(consts), "nodes_visited": visited}, loc_)
    return nchecked
