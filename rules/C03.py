"""C03 — shorthand-class options generalise exactly as documented (substitution clause)."""
from sa import ccp, guards, local
from . import common


def cls2(ctx, lib, roles, convert_fn):
    """CLS-2: the conversion pass runs whenever any of the six class settings is on."""
    rid = "CLS-2"
    class_fields = {f for r, f in roles.items() if r.startswith("class:")}
    sites = guards.call_sites(lib, convert_fn)
    sites = [s for s in sites if not s[0].derived]
    if not ctx.floor(rid, "call sites of the class-conversion pass %s" % convert_fn, len(sites), 1):
        return
    for body, blk, term in sites:
        gs = [g for g in guards.guards(body, blk) if not g["loop"]]
        site = "%s->%s" % (body.path, convert_fn)
        if not gs:
            ctx.ok(rid, site, {"guard": "unconditional"}, body.loc(term.get("line")))
            continue
        for g in gs:
            o = local.peel(g["origin"])
            truth = guards.edge_truth(g)
            if o[0] == "call" and lib.body(o[1]) is not None and truth is True:
                eb = lib.body(o[1])
                leaves = ccp.Machine([lib]).run(eb)
                bad = None
                for l in leaves:
                    if l.kind != "return":
                        bad = "enable predicate has a non-returning path %r" % (l,)
                        break
                    if not (isinstance(l.value, ccp.Const) and l.value.v is True):
                        # the predicate is (or may be) false on this path
                        for f in class_fields:
                            if l.fact(ccp.Fld(ccp.Sym("self"), f)) is not False:
                                bad = "enable predicate %s can return false while setting `%s` is on (path: %s)" % (
                                    eb.path, f, ", ".join("%s=%s" % kv for kv in l.label))
                                break
                    if bad:
                        break
                if bad:
                    ctx.violation(rid, (eb.path, "disjunction"), bad, eb.loc())
                else:
                    ctx.ok(rid, eb.path, {"leaves": len(leaves), "false_only_when_all_six_off": True}, eb.loc())
                ctx.ok(rid, site, {"guard": "%s == true" % eb.path}, body.loc(term.get("line")))
            else:
                ctx.violation(rid, (body.path, "guard of " + convert_fn),
                              "class conversion is additionally guarded by %s (edge %s): it may be skipped although a class option is set"
                              % (local.show(g["origin"]), g["values"]), body.loc(g["line"]))


def run(ctx):
    ctx.rule("CLS-1", "ccp decision table of the class-conversion closure (6 settings x 3 predicates) equals the documented "
                      "precedence d,w,s,D,W,S on every valuation feasible for the actual Unicode tables; captured variables are traced "
                      "to the config fields written by the public setters of those classes (CLS-3)")
    ctx.rule("CLS-2", "every call of the conversion pass is control dependent only on loop guards and on an enable predicate that "
                      "ccp shows to be false only if all six class settings are off")
    ctx.rule("ROLE", "each public setter writes constant true (or its parameter) to exactly the config fields of its documented roles")
    ctx.rule("TAB-2", "predicate -> table wiring (see C09)")
    ctx.assume("tokens \\d..\\S inserted into a grapheme survive trie construction, minimisation and printing as opaque symbols (language clause not decided)")
    prog = common.view(ctx, "default")
    lib = prog.lib
    roles = common.role_fields(ctx, lib)
    ctx.floor("ROLE", "class roles resolved to config fields", len([r for r in roles if r.startswith("class:")]), 6)
    r = common.cls1(ctx, prog, lib, roles)
    if r is None:
        return
    clo = r["closure"]
    cls2(ctx, lib, roles, clo.parent)
