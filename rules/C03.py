"""C03 — shorthand-class options generalise exactly as documented (substitution clause)."""
import re

from sa import ccp, guards, local
from . import common


def cls2(ctx, lib, roles, convert_fn):
    """CLS-2: the conversion pass runs whenever any of the six class settings is on."""
    rid = "CLS-2"
    class_fields = {f for r, f in roles.items() if r.startswith("class:")}
    sites = guards.call_sites(lib, convert_fn)
    sites = [s for s in sites if not s[0].derived]
    if not ctx.floor(rid, "call sites of the class-conversion pass %s" % convert_fn, len(sites), 1):
        return
    for body, blk, term in sites:
        gs = [g for g in guards.guards(body, blk) if not g["loop"]]
        site = "%s->%s" % (body.path, convert_fn)
        if not gs:
            ctx.ok(rid, site, {"guard": "unconditional"}, body.loc(term.get("line")))
            continue
        for g in gs:
            o = local.peel(g["origin"])
            truth = guards.edge_truth(g)
            if o[0] == "call" and lib.body(o[1]) is not None and truth is True:
                eb = lib.body(o[1])
                leaves = ccp.Machine([lib]).run(eb)
                bad = None
                for l in leaves:
                    if l.kind != "return":
                        bad = "enable predicate has a non-returning path %r" % (l,)
                        break
                    if not (isinstance(l.value, ccp.Const) and l.value.v is True):
                        # the predicate is (or may be) false on this path
                        for f in class_fields:
                            if l.fact(ccp.Fld(ccp.Sym("self"), f)) is not False:
                                bad = "enable predicate %s can return false while setting `%s` is on (path: %s)" % (
                                    eb.path, f, ", ".join("%s=%s" % kv for kv in l.label))
                                break
                    if bad:
                        break
                if bad:
                    ctx.violation(rid, (eb.path, "disjunction"), bad, eb.loc())
                else:
                    ctx.ok(rid, eb.path, {"leaves": len(leaves), "false_only_when_all_six_off": True}, eb.loc())
                ctx.ok(rid, site, {"guard": "%s == true" % eb.path}, body.loc(term.get("line")))
            else:
                ctx.violation(rid, (body.path, "guard of " + convert_fn),
                              "class conversion is additionally guarded by %s (edge %s): it may be skipped although a class option is set"
                              % (local.show(g["origin"]), g["values"]), body.loc(g["line"]))


def cls4(ctx, lib):
    """CLS-4: the code point handed to the class predicates ranges over *all* chars of every stored string: it is the parameter of a closure mapped over
    str::chars() whose results are all consumed, or the item of a loop over one str::chars() iterator -- never `chars().next()` (first char only)."""
    from sa.facts import callee_name
    rid = "CLS-4"
    n = 0
    for b in lib.bodies:
        if b.derived:
            continue
        pc = []
        for bi, t in b.calls():
            nm = callee_name(t)
            cb = lib.body(nm) if nm else None
            if cb is not None and cb.sig_inputs == ["char"] and cb.sig_output == "bool":
                pc.append((bi, t, nm))
        if len({x[2] for x in pc}) < 3:
            continue
        fi = guards.FnInfo.of(b)
        loops = fi.cfg.natural_loops()
        verdict = None
        for bi, t, nm in pc:
            o = fi.defs.operand(t["args"][0])
            po = local.peel(o)
            if b.kind == "closure" and po[0] == "param":
                site = common.closure_site(lib, b)
                use = None
                if site is not None:
                    parent, d, _ = site
                    for bj, t2 in parent.calls():
                        ops = [d.operand(a) for a in t2["args"]]
                        if any(local.peel(o2)[0] == "agg" and local.peel(o2)[1] == "closure" and local.peel(o2)[2] == b.path for o2 in ops):
                            use = (callee_name(t2) or "", ops, bj, parent, d)
                if use is None and site is not None:
                    # the closure is bound to a local and captured by another closure, which applies it (`.map(|it| it.chars().map(convert_char).join(""))`)
                    parent = site[0]
                    for cc in [c for c in lib.bodies if c.kind == "closure" and c.direct_parent == parent.path and c.path != b.path]:
                        ups = common.upvar_origins(lib, cc)
                        if not ups:
                            continue
                        mine = {c["name"] for c, o2 in zip(cc.captures, ups) if local.peel(o2)[0] == "agg" and local.peel(o2)[1] == "closure" and local.peel(o2)[2] == b.path}
                        if not mine:
                            continue
                        dcc = local.Defs(cc)
                        for bj, t2 in cc.calls():
                            ops = [dcc.operand(a) for a in t2["args"]]
                            if any(local.peel(o2)[0] == "upvar" and local.peel(o2)[1] in mine for o2 in ops[1:]):
                                use = (callee_name(t2) or "", ops, bj, cc, dcc)
                if use is None:
                    verdict = ("undecided", "cannot find where the deciding closure is used")
                    break
                cal, ops, bj, parent, d = use
                over_chars = any(x[0] == "call" and x[1].endswith("<impl str>::chars") for x in local.walk(ops[0]))
                if not (cal.endswith("Iterator::map") or cal.endswith("::flat_map") or cal.endswith("::for_each")) or not over_chars:
                    verdict = ("violation", "the deciding closure is applied by %s to %s, not mapped over str::chars() of the stored string" % (cal, local.show(ops[0])[:80]))
                    break
                # every mapped item is consumed (join / collect / for_each / extend / sum), not just the first
                taken = [callee_name(t3) or "" for _, t3 in parent.calls()
                         if any(x[0] == "call" and len(x) > 3 and x[3] == bj for a in t3["args"] for x in local.walk(d.operand(a)))]
                firsts = [c for c in taken if re.search(r"::(next|nth|last|find|take|first|position|peek|step_by|skip|any|all)$", c)]
                if firsts:
                    verdict = ("violation", "only part of the mapped chars is consumed (%s)" % firsts[0])
                    break
                verdict = verdict or ("ok", "closure parameter mapped over str::chars(), consumed by %s" % sorted({c.rsplit("::", 1)[-1] for c in taken}))
            else:
                nxt = [x for x in local.walk(o) if x[0] == "call" and x[1].endswith("str::Chars as std::iter::Iterator>::next")]
                if not nxt:
                    verdict = ("undecided", "the predicate argument %s is neither a mapped closure parameter nor an item of a str::chars() loop" % local.show(o)[:100])
                    break
                nb = nxt[0][3]
                mk = [x for x in local.walk(nxt[0]) if x[0] == "call" and x[1].endswith("<impl str>::chars")]
                mkb = mk[0][3] if mk else None
                looping = [h for h, body in loops.items() if nb in body and (mkb is None or mkb not in body)]
                if not looping:
                    verdict = ("violation", "the class predicates examine `chars().next()`: only the first char of each stored string decides, the remaining chars are "
                                            "dropped or replaced with it (a multi-scalar grapheme such as 'e'+U+0301 is treated as its first scalar)")
                    break
                verdict = verdict or ("ok", "item of a loop over one str::chars() iterator")
        n += 1
        if verdict[0] == "ok":
            ctx.ok(rid, b.path, {"source": verdict[1], "predicate_calls": len(pc)}, b.loc())
        elif verdict[0] == "violation":
            ctx.violation(rid, (b.path, "char source"), verdict[1], b.loc())
        else:
            ctx.undecided(rid, b.path, verdict[1], b.loc())
    ctx.floor(rid, "bodies deciding a class from three char predicates", n, 1)


def run(ctx):
    ctx.rule("CLS-1", "ccp decision table of the class-conversion closure (6 settings x 3 predicates) equals the documented "
                      "precedence d,w,s,D,W,S on every valuation feasible for the actual Unicode tables; captured variables are traced "
                      "to the config fields written by the public setters of those classes (CLS-3)")
    ctx.rule("CLS-4", "the char handed to the class predicates ranges over all chars of every stored string (closure mapped over str::chars() and fully consumed, or the "
                      "item of a loop over one chars() iterator), never chars().next()")
    ctx.rule("CLS-2", "every call of the conversion pass is control dependent only on loop guards and on an enable predicate that "
                      "ccp shows to be false only if all six class settings are off")
    ctx.rule("ROLE", "each public setter writes constant true (or its parameter) to exactly the config fields of its documented roles")
    ctx.rule("TAB-2", "predicate -> table wiring (see C09)")
    ctx.assume("tokens \\d..\\S inserted into a grapheme survive trie construction, minimisation and printing as opaque symbols (language clause not decided)")
    prog = common.view(ctx, "default")
    lib = prog.lib
    roles = common.role_fields(ctx, lib, want=common.CLASS_ROLES)
    ctx.floor("ROLE", "class roles resolved to config fields", len([r for r in roles if r.startswith("class:")]), 6)
    cls4(ctx, lib)
    # ESC-1/2 (shared with C01): the class tokens written into a grapheme keep their backslash while every literal backslash is escaped, per occurrence and for every entry
    from .C01 import esc
    ctx.rule("ESC-1", "every regex metacharacter incl. the backslash is escaped in literals per occurrence; only a backslash directly followed by d/D/s/S/w/W (a class token) is kept")
    ctx.rule("ESC-2", "escaping is applied to and stored back for every stored string of a grapheme")
    esc(ctx, prog, lib)
    from .C02 import uni4
    ctx.rule("UNI-4", "the union never drops an alternative unless it is absent, equal, or a class token included in the other per a table verified against the Unicode tables")
    uni4(ctx, prog, lib)
    from .C05 import lbl2
    ctx.rule("LBL-2", "label identity in the automaton code is decided on the labels' entries (chars()), never on their joined text (value()): a class token must not share an edge with literal text")
    lbl2(ctx, lib)
    from . import memo
    memo.rules(ctx)
    memo.check(ctx, lib)
    r = common.cls1(ctx, prog, lib, roles)
    if r is None:
        return
    clo = r["closure"]
    cls2(ctx, lib, roles, clo.parent)
