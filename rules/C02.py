"""C02 — exactness (printer precedence clauses only)."""
import re

from sa import ccp, local
from sa.facts import callee_name, norm
from . import common, fmtmodel
from .C06 import group_printers

EXPR = "expression::Expression"


def prc1(ctx, lib):
    cands = [b for b in lib.bodies if b.kind == "assoc_fn" and b.sig_inputs == ["&" + EXPR] and b.sig_output == "u8"]
    if len(cands) != 1:
        ctx.anchor_lost("PRC-1", "Expression -> u8 precedence function (found %d)" % len(cands))
        return None
    b = cands[0]
    adt = lib.adts[EXPR]
    names = [v["name"] for v in adt["variants"]]
    me = ccp.Sym("self")
    leaves = ccp.Machine([lib]).run(b, [me])
    table = {}
    dk = ccp.Discr(me).key()
    for l in leaves:
        if l.kind != "return":
            continue
        if not isinstance(l.value, ccp.Const):
            ctx.undecided("PRC-1", b.path, "precedence is not a constant on path %s" % (l.label,), b.loc())
            return None
        vs = []
        f = l.facts.get(dk)
        if isinstance(f, ccp.Const):
            vs = [f.v]
        elif dk in l.member:
            vs = l.member[dk]
        for v in vs:
            table[names[v]] = l.value.v
    need = ("Alternation", "Concatenation", "Literal", "Repetition")
    if any(n not in table for n in need):
        ctx.undecided("PRC-1", b.path, "precedence table incomplete: %s" % table, b.loc())
        return None
    okp = table["Alternation"] < table["Concatenation"] <= table["Literal"] < table["Repetition"]
    if okp:
        ctx.ok("PRC-1", b.path, {"table": table}, b.loc())
    else:
        ctx.violation("PRC-1", (b.path, "order"), "precedence table %s violates Alternation < Concatenation <= Literal < Repetition: an operand would be printed without the group it needs "
                      "(e.g. a|b followed by c as a|bc)" % table, b.loc())
    return b


def prc2(ctx, lib, prec_fn):
    sites = [(b, n) for b, n in group_printers(lib) if b.impl_trait is None or True]
    n_ok = 0
    for b, n in sites:
        if b.impl_self and b.impl_self.startswith("regexp::RegExp"):
            continue      # outer group: PRC-3
        if b.impl_self == "grapheme::Grapheme":
            continue      # quantified unit group: QNT-1 (C05)
        m = ccp.Machine([lib], inline=fmtmodel.component_inline, max_leaves=8192)
        leaves = m.run(b)
        for l in leaves:
            if l.kind != "return":
                continue
            vals = [e["value"] for e in l.events if e["k"] == "write_fmt"]
            if isinstance(l.value, ccp.Tmpl):
                vals.append(l.value)
            grouped_children = []
            plain_children = []
            for v in vals:
                if not isinstance(v, ccp.Tmpl):
                    continue
                parts = v.parts
                txt = fmtmodel.strip_sgr("".join(p if isinstance(p, str) else "\x00" for p in parts)).replace("\n", "")
                holes = [p for p in parts if not isinstance(p, str)]
                hi = 0
                i = 0
                while i < len(txt):
                    if txt[i] == "\x00":
                        before = txt[:i]
                        after = txt[i + 1:]
                        g = bool(re.search(r"\((?:\?:)?$", before)) and after.startswith(")")
                        (grouped_children if g else plain_children).append(holes[hi])
                        hi += 1
                    i += 1
            # facts of this leaf
            lt = [(k, v.v) for k, v in l.facts.items() if k[0] == "bin" and k[1] == "Lt" and isinstance(v, ccp.Const)
                  and k[2][0] == "call" and k[2][1] == prec_fn.path and k[3][0] == "call" and k[3][1] == prec_fn.path]
            singles = [(k, v.v) for k, v in l.facts.items() if k[0] == "call" and isinstance(v, ccp.Const) and isinstance(v.v, bool)
                       and lib.body(k[1]) is not None and lib.body(k[1]).sig_inputs == ["&" + EXPR] and lib.body(k[1]).sig_output == "bool"]
            for h in grouped_children:
                child = h.v
                if isinstance(child, ccp.Call) and child.callee.endswith("to_string") and child.args:
                    child = child.args[0]
                ck = child.key()
                lt_ok = [v for k, v in lt if k[2][2] == (ck,)]
                sg = [v for k, v in singles if k[2] == (ck,)]
                if lt_ok == [True] and sg == [False]:
                    n_ok += 1
                    ctx.ok("PRC-2", "%s|grouped|%s" % (b.path, ";".join("%s=%s" % kv for kv in l.label)), None, b.loc())
                else:
                    ctx.violation("PRC-2", (b.path, "grouped without need"), "a child is parenthesised on a path where `precedence(child) < precedence(parent)` is %s and "
                                  "`child is a single code point` is %s (facts: %s)" % (lt_ok, sg, l.label), b.loc())
            for h in plain_children:
                child = h.v
                if isinstance(child, ccp.Call) and child.callee.endswith("to_string") and child.args:
                    child = child.args[0]
                ck = child.key()
                lt_c = [v for k, v in lt if k[2][2] == (ck,)]
                sg = [v for k, v in singles if k[2] == (ck,)]
                lt_any = [v for k, v in lt]
                if not lt_c and not lt_any:
                    continue   # a part that is not an operand (e.g. the quantifier)
                if lt_c == [True] and sg == [False]:
                    ctx.violation("PRC-2", (b.path, "missing group"), "a lower-precedence, multi-code-point child is printed without a group on path %s: the operator "
                                  "would bind to only part of it" % (l.label,), b.loc())
                elif lt_c in ([False],) or sg == [True]:
                    n_ok += 1
                    ctx.ok("PRC-2", "%s|plain|%s" % (b.path, ";".join("%s=%s" % kv for kv in l.label)), None, b.loc())
                elif not lt_c and lt_any:
                    # the comparison on this path is about something else than the printed child: crossed operands
                    ctx.violation("PRC-2", (b.path, "comparison operands"), "the precedence comparison on this path does not compare the printed child with its parent: %s"
                                  % ([str(k) for k, _ in lt][:2],), b.loc())
    ctx.floor("PRC-2", "grouping decisions on abstract paths", n_ok, 12)


def prc3(ctx, lib, roles):
    r = fmtmodel.regexp_fmt_leaves(ctx, lib, roles)
    if not r:
        return
    b = r["body"]
    n = 0
    for fl in r["leaves"]:
        sk, why = fmtmodel.parse_skeleton(fl)
        if sk is None:
            ctx.violation("PRC-3", (b.path, "skeleton"), why, b.loc())
            continue
        if fl.alt is None:
            ctx.undecided("PRC-3", b.path, "a path does not test whether the expression is an alternation", b.loc())
            continue
        has = bool(sk["open"]) and sk["close"]
        if fl.alt and not has:
            ctx.violation("PRC-3", (b.path, "outer group"), "a top-level alternation is printed without the outer group: anchors/flags would apply to the first and last "
                          "alternative only (^a|b$) [settings %s]" % fl.flags, b.loc())
        elif (not fl.alt) and (sk["open"] or sk["close"]):
            ctx.violation("PRC-3", (b.path, "spurious outer group"), "a non-alternation is wrapped in an outer group [settings %s]" % fl.flags, b.loc())
        else:
            n += 1
            ctx.ok("PRC-3", "%s|alt=%s|%s" % (b.path, fl.alt, ",".join("%s=%d" % kv for kv in sorted(fl.flags.items()))), None, b.loc())
    ctx.floor("PRC-3", "abstract paths of RegExp::fmt", n, 48)


def run(ctx):
    ctx.rule("PRC-1", "ccp of the precedence function per variant: Alternation < Concatenation <= Literal < Repetition")
    ctx.rule("PRC-2", "in the alternation / concatenation / repetition printers a child is parenthesised iff precedence(child) < precedence(parent) and the child is not a single "
                      "code point; the comparison's operands are the printed child and its parent")
    ctx.rule("PRC-3", "RegExp::fmt wraps the expression in an outer group iff it is an alternation")
    ctx.assume("whether minimisation, union() factoring and remove_common_substring preserve the language for all inputs is NOT decided (algorithmic); these are necessary printer conditions only")
    prog = common.view(ctx, "default")
    lib = prog.lib
    roles = common.role_fields(ctx, lib)
    pf = prc1(ctx, lib)
    if pf is not None:
        prc2(ctx, lib, pf)
    prc3(ctx, lib, roles)
    from . import classprinter
    ctx.rule("ADJ-1", "bracket-class ranges x-y are formed only over runs of consecutive scalar values: the position function is the library order of all chars or a "
                      "constant-offset map verified at every breakpoint (surrogate gap), resp. the adjacency predicate agrees with 'next scalar value' on all breakpoint pairs")
    classprinter.adj1(ctx, lib)
