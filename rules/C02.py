"""C02 — exactness (printer precedence clauses only)."""
import re

from sa import ccp, guards, local
from sa.facts import callee_name, norm
from . import common, fmtmodel
from .C06 import group_printers

EXPR = "expression::Expression"


def prc1(ctx, lib):
    cands = [b for b in lib.bodies if b.kind == "assoc_fn" and b.sig_inputs == ["&" + EXPR] and b.sig_output == "u8"]
    if len(cands) != 1:
        ctx.anchor_lost("PRC-1", "Expression -> u8 precedence function (found %d)" % len(cands))
        return None
    b = cands[0]
    adt = lib.adts[EXPR]
    names = [v["name"] for v in adt["variants"]]
    me = ccp.Sym("self")
    leaves = ccp.Machine([lib]).run(b, [me])
    table = {}
    dk = ccp.Discr(me).key()
    for l in leaves:
        if l.kind != "return":
            continue
        if not isinstance(l.value, ccp.Const):
            ctx.undecided("PRC-1", b.path, "precedence is not a constant on path %s" % (l.label,), b.loc())
            return None
        vs = []
        f = l.facts.get(dk)
        if isinstance(f, ccp.Const):
            vs = [f.v]
        elif dk in l.member:
            vs = l.member[dk]
        for v in vs:
            table[names[v]] = l.value.v
    need = ("Alternation", "Concatenation", "Literal", "Repetition")
    if any(n not in table for n in need):
        ctx.undecided("PRC-1", b.path, "precedence table incomplete: %s" % table, b.loc())
        return None
    okp = table["Alternation"] < table["Concatenation"] <= table["Literal"] < table["Repetition"]
    if okp:
        ctx.ok("PRC-1", b.path, {"table": table}, b.loc())
    else:
        ctx.violation("PRC-1", (b.path, "order"), "precedence table %s violates Alternation < Concatenation <= Literal < Repetition: an operand would be printed without the group it needs "
                      "(e.g. a|b followed by c as a|bc)" % table, b.loc())
    return b


def prc2(ctx, lib, prec_fn):
    sites = [b for b, n in group_printers(lib)]
    # helpers: predicates wrapping the precedence comparison, and group builders that leave the decision to their callers
    helpers = {b.path for b in lib.bodies if b.kind in ("fn", "assoc_fn") and not b.derived and b.sig_output == "bool"
               and any(callee_name(t) == prec_fn.path for _, t in b.calls())}

    def inl(n):
        return fmtmodel.component_inline(n) or n in helpers

    def decides(leaves):
        return any(k[0] == "bin" and k[1] == "Lt" and k[2][0] == "call" and k[2][1] == prec_fn.path for l in leaves for k in l.facts)
    n_ok = 0
    records = []
    work = list(sites)
    done = set()
    depth = {b.path: 0 for b in work}
    while work:
        b = work.pop(0)
        if b.path in done:
            continue
        done.add(b.path)
        if b.impl_self and b.impl_self.startswith("regexp::RegExp"):
            continue      # outer group: PRC-3
        if b.impl_self == "grapheme::Grapheme":
            continue      # quantified unit group: QNT-1 (C05)
        m = ccp.Machine([lib], inline=inl, max_leaves=8192)
        leaves = m.run(b)
        if not decides(leaves) and b.kind in ("fn", "assoc_fn") and not b.is_pub and depth[b.path] < 3:
            ups = guards.call_sites(lib, b.path)
            if ups:
                # a group builder without a decision of its own: judged inside each of its callers
                helpers.add(b.path)
                for ub, _, _ in ups:
                    depth.setdefault(ub.path, depth[b.path] + 1)
                    work.append(ub)
                continue
        for l in leaves:
            if l.kind != "return":
                continue
            vals = [e["value"] for e in l.events if e["k"] == "write_fmt"]
            if isinstance(l.value, ccp.Tmpl):
                vals.append(l.value)
            grouped_children = []
            plain_children = []
            for v in vals:
                if not isinstance(v, ccp.Tmpl):
                    continue
                parts = v.parts
                txt = fmtmodel.strip_sgr("".join(p if isinstance(p, str) else "\x00" for p in parts)).replace("\n", "")
                holes = [p for p in parts if not isinstance(p, str)]
                hi = 0
                i = 0
                while i < len(txt):
                    if txt[i] == "\x00":
                        before = txt[:i]
                        after = txt[i + 1:]
                        g = bool(re.search(r"\((?:\?:)?$", before)) and after.startswith(")")
                        (grouped_children if g else plain_children).append(holes[hi])
                        hi += 1
                    i += 1
            # facts of this leaf
            lt = [(k, v.v) for k, v in l.facts.items() if k[0] == "bin" and k[1] == "Lt" and isinstance(v, ccp.Const)
                  and k[2][0] == "call" and k[2][1] == prec_fn.path and k[3][0] == "call" and k[3][1] == prec_fn.path]
            singles = [(k, v.v) for k, v in l.facts.items() if k[0] == "call" and isinstance(v, ccp.Const) and isinstance(v.v, bool)
                       and lib.body(k[1]) is not None and lib.body(k[1]).sig_inputs == ["&" + EXPR] and lib.body(k[1]).sig_output == "bool"]
            records.append((b, l, grouped_children, plain_children, lt, singles))
    # the single-code-point predicate is the one consulted by most printers; any other predicate taking part in the decision is an extra condition
    use = {}
    for b, l, gc, pc, lt, singles in records:
        for k, _ in singles:
            use.setdefault(k[1], set()).add(b.path)
    canonical = max(use, key=lambda k_: (len(use[k_]), k_)) if use else None

    def child_key(h):
        child = h.v
        if isinstance(child, ccp.Call) and child.callee.endswith("to_string") and child.args:
            child = child.args[0]
        return child.key()
    for b, l, grouped_children, plain_children, lt, singles in records:
        for h in grouped_children:
            ck = child_key(h)
            lt_ok = [v for k, v in lt if k[2][2] == (ck,)]
            sg = [v for k, v in singles if k[2] == (ck,) and k[1] == canonical]
            if lt_ok == [True] and sg == [False]:
                n_ok += 1
                ctx.ok("PRC-2", "%s|grouped|%s" % (b.path, ";".join("%s=%s" % kv for kv in l.label)), None, b.loc())
            elif not lt_ok and not sg and [v for k, v in lt]:
                # the parenthesised text is not recognisably one of the compared operands (it was transformed on the way): no verdict rather than a guess
                ctx.undecided("PRC-2", b.path, "cannot relate the parenthesised text %s to the operands of the precedence comparison" % ccp.show(h.v)[:80], b.loc())
            else:
                ctx.violation("PRC-2", (b.path, "grouped without need"), "a child is parenthesised on a path where `precedence(child) < precedence(parent)` is %s and "
                              "`child is a single code point` is %s (facts: %s)" % (lt_ok, sg, l.label), b.loc())
        for h in plain_children:
            ck = child_key(h)
            lt_c = [v for k, v in lt if k[2][2] == (ck,)]
            sg = [v for k, v in singles if k[2] == (ck,) and k[1] == canonical]
            extra = [(k[1], v) for k, v in singles if k[2] == (ck,) and k[1] != canonical]
            lt_any = [v for k, v in lt]
            if not lt_c and not lt_any:
                continue   # a part that is not an operand (e.g. the quantifier)
            if lt_c == [True] and sg == [False]:
                ctx.violation("PRC-2", (b.path, "missing group"), "a lower-precedence, multi-code-point child is printed without a group%s on path %s: the operator "
                              "would bind to only part of it (after a counted repetition `{n}` a following `?` even means 'lazy', not 'optional')"
                              % ((" when " + " and ".join("%s is %s" % e for e in extra)) if extra else "", l.label), b.loc())
            elif lt_c in ([False],) or sg == [True]:
                n_ok += 1
                ctx.ok("PRC-2", "%s|plain|%s" % (b.path, ";".join("%s=%s" % kv for kv in l.label)), None, b.loc())
            elif not lt_c and lt_any:
                # the comparison on this path is about something else than the printed child: crossed operands
                ctx.violation("PRC-2", (b.path, "comparison operands"), "the precedence comparison on this path does not compare the printed child with its parent: %s"
                              % ([str(k) for k, _ in lt][:2],), b.loc())
    ctx.floor("PRC-2", "grouping decisions on abstract paths", n_ok, 12)


def prc3(ctx, lib, roles):
    r = fmtmodel.regexp_fmt_leaves(ctx, lib, roles)
    if not r:
        return
    b = r["body"]
    n = 0
    for fl in r["leaves"]:
        sk, why = fmtmodel.parse_skeleton(fl)
        if sk is None:
            ctx.violation("PRC-3", (b.path, "skeleton"), why, b.loc())
            continue
        if fl.alt is None:
            ctx.undecided("PRC-3", b.path, "a path does not test whether the expression is an alternation", b.loc())
            continue
        has = bool(sk["open"]) and sk["close"]
        if fl.alt and not has:
            ctx.violation("PRC-3", (b.path, "outer group"), "a top-level alternation is printed without the outer group: anchors/flags would apply to the first and last "
                          "alternative only (^a|b$) [settings %s]" % fl.flags, b.loc())
        elif (not fl.alt) and (sk["open"] or sk["close"]):
            ctx.violation("PRC-3", (b.path, "spurious outer group"), "a non-alternation is wrapped in an outer group [settings %s]" % fl.flags, b.loc())
        else:
            n += 1
            ctx.ok("PRC-3", "%s|alt=%s|%s" % (b.path, fl.alt, ",".join("%s=%d" % kv for kv in sorted(fl.flags.items()))), None, b.loc())
    ctx.floor("PRC-3", "abstract paths of RegExp::fmt", n, 48)


def run(ctx):
    ctx.rule("PRC-1", "ccp of the precedence function per variant: Alternation < Concatenation <= Literal < Repetition")
    ctx.rule("PRC-2", "in the alternation / concatenation / repetition printers a child is parenthesised iff precedence(child) < precedence(parent) and the child is not a single "
                      "code point; the comparison's operands are the printed child and its parent")
    ctx.rule("PRC-3", "RegExp::fmt wraps the expression in an outer group iff it is an alternation")
    ctx.assume("whether minimisation, union() factoring and remove_common_substring preserve the language for all inputs is NOT decided (algorithmic); these are necessary printer conditions only")
    prog = common.view(ctx, "default")
    lib = prog.lib
    roles = common.role_fields(ctx, lib, want=common.FMT_ROLES)
    ctx.rule("DEF-1", "every used argument-less producer of the settings (RegExpConfig::new, a derived Default once something calls it): every boolean option off, both thresholds 1")
    common.def1(ctx, lib)
    pf = prc1(ctx, lib)
    if pf is not None:
        prc2(ctx, lib, pf)
    prc3(ctx, lib, roles)
    from . import classprinter
    ctx.rule("ADJ-1", "bracket-class ranges x-y are formed only over runs of consecutive scalar values: the position function is the library order of all chars or a "
                      "constant-offset map verified at every breakpoint (surrogate gap), resp. the adjacency predicate agrees with 'next scalar value' on all breakpoint pairs")
    classprinter.adj1(ctx, lib)
    ctx.rule("TOK-1", "the bracket-class printer emits members only: no shorthand / property class token among its string constants")
    classprinter.tok1(ctx, lib)
    ctx.rule("UNI-1", "two alternatives are merged into a character class only under dominating single-code-point guards on both")
    ctx.rule("UNI-2", "`x?` is built from the alternative that is not the one known to be empty")
    ctx.rule("UNI-3", "a removed common prefix is re-attached in front and a removed common suffix behind the factored rest")
    uni(ctx, lib)
    ctx.rule("UNI-4", "a path of the union that returns only one alternative knows the other is absent, equal, or (class tokens) included in it per a table verified against the Unicode tables")
    uni4(ctx, prog, lib)
    ctx.rule("CON-1", "concatenate(a, b): on every abstract path everything derived from a precedes everything derived from b in the returned expression")
    ctx.rule("REV-1", "no insert(0, item) inside a forward loop over the items being copied (reverses the run)")
    con1(ctx, lib)
    from . import counting, minimise
    minimise.rules(ctx)
    minimise.check(ctx, lib)
    from . import substring
    substring.rules(ctx)
    substring.check(ctx, lib)
    counting.rules(ctx)
    counting.cnt1(ctx, lib)
    counting.cnt2(ctx, lib)
    counting.chr1(ctx, lib)
    counting.fch1(ctx, lib)
    counting.scp1(ctx, lib)
    # LBL-3 (shared with C05): the trie lookup reuses an edge only under equal repetition maxima
    from .C05 import lbl3
    ctx.rule("LBL-3", "the trie lookup reuses an existing edge unchanged only under a dominating equality of the two labels' repetition maxima")
    lbl3(ctx, lib)
    # HIS-2 (shared with C10): build() does not consume or alter the builder's test cases, so every build() answers for the same set
    from .C10 import his2
    ctx.rule("HIS-2", "build() leaves the builder's state as it found it up to the idempotent canonicalisation of the test-case vector")
    his2(ctx, lib)
    # ESCP-2 (b), shared with C11: the literal printer applies the escaper on every path before it prints a grapheme
    from .C11 import literal_printer_escapes
    from .C01 import find_escape_entry as _fee
    ctx.rule("ESCP-2", "every literal is escaped before printing: the literal printer calls the symbol escaper on the grapheme or on each of its repetitions on every path")
    _hits = _fee(lib)
    if len(_hits) == 1:
        literal_printer_escapes(ctx, lib, _hits[0])
    else:
        ctx.anchor_lost("ESCP-2", "symbol escaper")
    ctx.rule("BRZ-1", "every update of the equation system in the state-elimination function has the shape of Brzozowski's algebraic method "
                      "(b[n]=a[n,n]*b[n]; a[n,j]=a[n,n]*a[n,j]; b[i]=b[i]+a[i,n]b[n]; a[i,j]=a[i,j]+a[i,n]a[n,j]; n = reversed loop variable)")
    brz1(ctx, lib)
    ctx.rule("BRZ-0", "the equation system is the automaton: rows numbered by a traversal from the initial state, b[i] = epsilon iff state_i final, a[i, position(target)] = edge label, result b[0]")
    brz0(ctx, lib)


# ----------------------------------------------------------------------------- necessary conditions inside union()

def _operand_roots(o):
    """parameter-rooted operands (arg1 / arg2 of union, through clone / Some / deref) occurring in an origin tree"""
    out = set()
    for x in local.walk(o):
        if x[0] == "param":
            out.add(x[1])
    return out


def uni(ctx, lib):
    from sa import guards
    cc = [b for b in lib.bodies if b.kind == "assoc_fn" and b.sig_output == "expression::Expression"
          and len([t for t in b.sig_inputs if t.startswith("std::collections::BTreeSet<char>")]) == 2]
    sites_cc = []
    for c_ in cc:
        sites_cc += guards.call_sites(lib, c_.path)
    if ctx.floor("UNI-1", "constructions of a merged character class", len(sites_cc), 1):
        for body, bi, t in sites_cc:
            fi = guards.FnInfo.of(body)
            gs = guards.guards(body, bi)
            singles = {}
            for g in gs:
                o = local.peel(g["origin"])
                if o[0] == "call" and lib.body(o[1]) is not None and lib.body(o[1]).sig_inputs == ["&" + EXPR] and lib.body(o[1]).sig_output == "bool" \
                        and guards.edge_truth(g) is True and fi.cfg.edge_dominates(g["block"], g["succ"], bi):
                    singles[local.show(local.peel(o[2][0]))] = o[1]
            bad = []
            for a in t["args"][:2]:
                ao = fi.defs.operand(a)
                # the expression whose character set is taken: innermost operand of extract(clone(E))
                inner = None
                # the expression whose character set is taken: the extractor's argument, by value through a clone (extract(E.clone())) or by reference (extract(&E))
                for x in local.walk(ao):
                    xb = lib.body(x[1]) if x[0] == "call" else None
                    if xb is not None and x[2] and xb.sig_output and xb.sig_output.startswith("std::collections::BTreeSet<char>") \
                            and len(xb.sig_inputs) == 1 and xb.sig_inputs[0].lstrip("&") == EXPR:
                        it = local.peel(x[2][0])
                        if it[0] == "call" and it[1].endswith("Clone>::clone") and it[2] and EXPR in it[1]:
                            it = local.peel(it[2][0])
                        inner = local.show(it)
                        break
                if inner is None:
                    for x in local.walk(ao):
                        if x[0] == "call" and x[1].endswith("Clone>::clone") and x[2]:
                            inner = local.show(local.peel(x[2][0]))
                            break
                if inner is None or inner not in singles:
                    bad.append(inner or local.show(ao)[:60])
            if bad:
                ctx.violation("UNI-1", (body.path, "character class merge"),
                              "two alternatives are merged into one character class without both being known to be a single code point (unguarded operand: %s): "
                              "a multi-character alternative would be dissolved into its characters" % bad, body.loc(t.get("line")))
            else:
                ctx.ok("UNI-1", "%s:class merge under single-code-point guards" % body.path, {"guards": sorted(set(singles.values()))}, body.loc(t.get("line")))
    # UNI-2: `x?` is built from the non-empty side (abstract paths of the union function; crate helpers that build the optional are inlined)
    uni2(ctx, lib)
    # UNI-3: a removed common prefix is re-attached in front, a removed common suffix behind (abstract paths of the union function; helpers inlined)
    uni3(ctx, lib)


def uni4(ctx, prog, lib):
    """UNI-4: the union never drops an alternative.  A path that returns only one of the two operands must know that the other one is absent (None), equal to it, or - when
    the decision is taken by looking the two class tokens up in a constant table of inclusions - that every pair of that table is a true inclusion of the Unicode classes
    (verified against the tables regex-syntax compiles, negated classes by complement)."""
    from sa import ccp, tables
    from sa.facts import cval
    opt = "&std::option::Option<%s>" % EXPR
    us = [b for b in lib.bodies if b.kind in ("assoc_fn", "fn") and len([t for t in b.sig_inputs if t == opt]) == 2 and b.sig_output == opt[1:]]
    preds = {b.path for b in lib.bodies if b.sig_inputs == ["&" + EXPR] and b.sig_output == "bool"}
    n4 = 0
    for u in us:
        pnames = [u.locals[i + 1].get("name") or "arg%d" % (i + 1) for i, t in enumerate(u.sig_inputs) if t == opt]

        def inl(n):
            x = lib.body(n)
            return x is not None and n != u.path and x.sig_output in (EXPR, opt[1:]) and n not in preds and not x.derived and not x.impl_trait
        leaves = ccp.Machine([lib], inline=inl, max_leaves=6000).run(u, None)
        rets = [l for l in leaves if l.kind == "return"]
        if not any(isinstance(x, ccp.Agg) and x.kind == "adt" and x.label.endswith("::Alternation") for l in rets for x in _walk_v(l.value)):
            continue
        verdicts = {}
        for l in rets:
            txt = ccp.show(l.value) if l.value is not None else ""
            roots = {p_ for p_ in pnames if any(isinstance(x, ccp.Sym) and x.name == p_ for x in _walk_v(l.value))}
            if len(roots) != 1 or "None" in txt[:40]:
                continue
            kept = next(iter(roots))
            other = [p_ for p_ in pnames if p_ != kept][0]
            lab = l.label
            # the analysis does not relate `x.is_some()` with the discriminant of `x.clone()`: drop paths on which the two contradict each other
            infeasible = False
            for p_ in pnames:
                via_call = [v == "True" for a, v in lab if re.search(r"is_some\(%s\)$" % re.escape(p_), a)] + [v == "False" for a, v in lab if re.search(r"is_none\(%s\)$" % re.escape(p_), a)]
                via_discr = [v == "1" for a, v in lab if re.search(r"^discr\(.*clone\(%s\)\)$" % re.escape(p_), a)]
                if via_call and via_discr and set(via_call) != set(via_discr) and len(set(via_call)) == 1 and len(set(via_discr)) == 1:
                    infeasible = True
            if infeasible:
                continue
            def discr_of(atom, prm):
                m_ = re.match(r"^discr\((.*)\)$", atom)
                if not m_:
                    return False
                inner_ = m_.group(1)
                for _i in range(6):
                    m2_ = re.match(r"^(?:[\w:<>, ]*clone|\*|&)\(?(.*?)\)?$", inner_)
                    if inner_ == prm or not m2_:
                        break
                    inner_ = m2_.group(1)
                return inner_.strip("*&() ") == prm
            absent = any((re.search(r"discr\(.*clone\(%s\)\)$" % re.escape(other), a) or discr_of(a, other)) and v in ("0", "not in [1]") for a, v in lab) \
                or any(re.search(r"is_some\(%s\)$" % re.escape(other), a) and v == "False" for a, v in lab) \
                or any(re.search(r"is_none\(%s\)$" % re.escape(other), a) and v == "True" for a, v in lab)
            equal = any(a.startswith("Ne(") and v == "False" and all(p_ in a for p_ in pnames) for a, v in lab) \
                or any(re.match(r"^(?:Eq\(|.*PartialEq.*::eq\()", a) and v == "True" and all(p_ in a for p_ in pnames) for a, v in lab)
            optional = any("::is_empty(" in a and other in a and v == "True" for a, v in lab) and "QuestionMark" in txt
            if absent or equal or optional:
                verdicts.setdefault(("ok", "absent/equal/optional"), 0)
                verdicts[("ok", "absent/equal/optional")] += 1
                continue
            tabs = [a for a, v in lab if v == "True" and re.search(r"::contains\((?:array|&|static|\w)", a) and "tuple(" in a]
            if tabs:
                verdicts.setdefault(("table", ""), 0)
                verdicts[("table", "")] += 1
            else:
                verdicts.setdefault(("undecided", "; ".join("%s=%s" % (a[:50], v) for a, v in lab[-3:])), 0)
        if not verdicts:
            continue
        n4 += 1
        bad = None
        if any(k[0] == "table" for k in verdicts):
            oracle = common.regex_oracle_tables(ctx, prog, "UNI-4")
            sets = {}
            for tok, neg in (("\\d", "\\D"), ("\\w", "\\W"), ("\\s", "\\S")):
                if tok.replace("\\\\", "\\") in oracle or tok in oracle:
                    pass
            for tok in ("\\d", "\\w", "\\s"):
                key = tok.encode().decode("unicode_escape") if False else tok
            for tok, (pth, rs, _) in oracle.items():
                sets[tok] = rs
                sets[tok.upper()] = tables.complement(rs)
            ntab = 0
            for cpath, c in lib.consts.items():
                v = cval(c.get("value")) if c.get("value") is not None else None
                if not (isinstance(v, list) and v and all(isinstance(x, tuple) and len(x) == 2 and all(isinstance(y, str) for y in x) for x in v)):
                    continue
                if not all(y in sets for x in v for y in x):
                    continue
                ntab += 1
                for sub, sup in v:
                    if not tables.is_subset(sets[sub], sets[sup]):
                        diff = tables.difference(sets[sub], sets[sup])
                        bad = (cpath, sub, sup, diff[0][0] if diff else None)
                        break
            if ntab == 0 and bad is None:
                ctx.undecided("UNI-4", u.path, "an alternative is dropped after a table lookup, but no constant table of class-token pairs was found", u.loc())
                continue
        und = [k for k in verdicts if k[0] == "undecided"]
        if bad:
            ctx.violation("UNI-4", (u.path, "alternative dropped: %s not within %s" % (bad[1], bad[2])),
                          "the union drops an alternative when the table %s says its class is contained in the other one, but the entry (%s, %s) is not an inclusion: %s is in %s and "
                          "not in %s, so test cases with such a character there are no longer accepted" % (bad[0], bad[1], bad[2], tables.fmt_cp(bad[3]) if bad[3] is not None else "?", bad[1], bad[2]), u.loc())
        elif und:
            ctx.undecided("UNI-4", u.path, "a path returns only one of the two alternatives under a condition the analysis cannot justify (%s)" % und[0][1], u.loc())
        else:
            ctx.ok("UNI-4", u.path, {"one_sided_paths": sum(verdicts.values())}, u.loc())
    ctx.floor("UNI-4", "unions with one-sided result paths", n4, 1)


def uni3(ctx, lib):
    from sa import ccp
    opt = "&std::option::Option<%s>" % EXPR
    us = [b for b in lib.bodies if b.kind in ("assoc_fn", "fn") and len([t for t in b.sig_inputs if t == opt]) == 2 and b.sig_output == opt[1:]]
    preds = {b.path for b in lib.bodies if b.sig_inputs == ["&" + EXPR] and b.sig_output == "bool"}
    n3 = 0
    for u in us:
        def inl(n):
            x = lib.body(n)
            return x is not None and n != u.path and x.sig_output in (EXPR, opt[1:]) and n not in preds and not x.derived and not x.impl_trait
        leaves = ccp.Machine([lib], inline=inl, max_leaves=6000).run(u, None)

        def affix(v):
            """'P' / 'S' if the literal's cluster is built from the result of the common-substring removal with that side"""
            for x in _walk_v(v):
                if isinstance(x, ccp.Call) and lib.body(x.callee) is not None and any(
                        isinstance(a_, ccp.Agg) and a_.kind == "adt" and a_.label.startswith("substring::Substring::") for a_ in x.args):
                    side = [a_.label.rsplit("::", 1)[1] for a_ in x.args if isinstance(a_, ccp.Agg) and a_.kind == "adt" and a_.label.startswith("substring::Substring::")][0]
                    return "P" if side == "Prefix" else "S"
            return None

        def seq(v):
            if isinstance(v, ccp.Agg) and v.kind == "adt" and v.label.endswith("::Concatenation"):
                return seq(v.fields[0]) + seq(v.fields[1])
            if isinstance(v, ccp.Call) and v.callee.endswith("Box<T>>::from") and v.args:
                return seq(v.args[0])
            if isinstance(v, ccp.Agg) and v.kind == "adt" and v.label.endswith("::Some") and v.fields:
                return seq(v.fields[0])
            if isinstance(v, ccp.Agg) and v.kind == "adt" and v.label.endswith("::Literal"):
                k = affix(v)
                return [k or "X"]
            return ["X"]
        seen = {}
        for l in leaves:
            if l.kind != "return" or l.value is None:
                continue
            sq = seq(l.value)
            if "P" not in sq and "S" not in sq:
                continue
            core = "".join(sq)
            good = re.fullmatch(r"P?X+S?", core) is not None
            seen.setdefault(core, good)
        for core, good in sorted(seen.items()):
            n3 += 1
            if good:
                ctx.ok("UNI-3", "%s:result shape %s" % (u.path, core), None, u.loc())
            else:
                ctx.violation("UNI-3", (u.path, "re-attachment order " + core), "a result of the union reads, left to right, %s (P = removed common prefix, S = removed common suffix, "
                              "X = factored rest): the prefix must come first and the suffix last" % core, u.loc())
    ctx.floor("UNI-3", "result shapes re-attaching a removed common prefix/suffix", n3, 2)


def _walk_v(v):
    from sa import ccp
    yield v
    for f in (getattr(v, "fields", None) or getattr(v, "args", None) or []):
        if isinstance(f, ccp.V):
            yield from _walk_v(f)
    for nm in ("base", "a", "b", "v"):
        f = getattr(v, nm, None)
        if isinstance(f, ccp.V):
            yield from _walk_v(f)


def uni2(ctx, lib):
    """Abstract paths of the function that unites two optional expressions.  On every path a returned `Repetition(X, q)` whose X is (a clone of) one of the
    two alternatives requires q = `?`, a fact is_empty(other alternative) = true and no fact is_empty(X) = true; no other quantifier is ever built there."""
    from sa import ccp
    opt = "&std::option::Option<%s>" % EXPR
    us = [b for b in lib.bodies if b.kind in ("assoc_fn", "fn") and len([t for t in b.sig_inputs if t == opt]) == 2 and b.sig_output == opt[1:]]
    if not ctx.floor("UNI-2", "functions uniting two optional expressions", len(us), 1):
        return
    preds = {b.path for b in lib.bodies if b.sig_inputs == ["&" + EXPR] and b.sig_output == "bool"}
    n2 = 0
    n_u = 0
    for u in us:
        pnames = [u.locals[i + 1].get("name") or "arg%d" % (i + 1) for i, t in enumerate(u.sig_inputs) if t == opt]

        def inl(n):
            x = lib.body(n)
            return x is not None and n != u.path and x.sig_output in (EXPR, opt[1:]) and n not in preds and not x.derived and not x.impl_trait
        m = ccp.Machine([lib], inline=inl, max_leaves=6000)
        leaves = m.run(u, None)
        if any(l.kind == "cut" for l in leaves):
            ctx.no_verdict("UNI-2", (u.path, "paths"), "abstract interpretation of %s did not terminate within the path budget" % u.path, u.loc())
            continue
        if not any(isinstance(x, ccp.Agg) and x.kind == "adt" and x.label.endswith("::Alternation") for l in leaves if l.kind == "return" for x in _walk_v(l.value)):
            continue        # same signature but never yields an alternation: the concatenating sibling
        n_u += 1
        seen = {}
        for l in leaves:
            if l.kind != "return":
                continue
            empt = {}
            for atom, val in l.label:
                for pth in preds:
                    if atom.startswith(pth + "("):
                        rs = {p_ for p_ in pnames if re.search(r"\b%s\b" % re.escape(p_), atom[len(pth):])}
                        if len(rs) == 1:
                            empt.setdefault((pth, rs.pop()), val)
            for x in _walk_v(l.value):
                if not (isinstance(x, ccp.Agg) and x.kind == "adt" and x.label.endswith("::Repetition") and len(x.fields) >= 2):
                    continue
                q = ccp.show(x.fields[1])
                opnd = ccp.show(x.fields[0])
                roots = {p_ for p_ in pnames if re.search(r"Clone>::clone\(%s\)" % re.escape(p_), opnd) or re.fullmatch(r".*\b%s\b.*" % re.escape(p_), opnd)}
                fresh = any(isinstance(y, ccp.Agg) and y.kind == "adt" and y.label.endswith(("::Alternation", "::Concatenation", "::CharacterClass")) for y in _walk_v(x.fields[0]))
                if "QuestionMark" not in q:
                    seen[(q, "quantifier")] = ("violation", "the union of two alternatives builds a repetition with %s: only `?` (for an empty alternative) can be introduced here" % q)
                    continue
                if fresh or len(roots) != 1:
                    continue
                r_ = next(iter(roots))
                other = [p_ for p_ in pnames if p_ != r_][0]
                true_other = [pth for (pth, pn), val in empt.items() if pn == other and val == "True"]
                true_self = [pth for (pth, pn), val in empt.items() if pn == r_ and val == "True"]
                if true_self:
                    seen[(r_, "optional side")] = ("violation", "the alternative known to be *empty* (%s) is the one made optional: the non-empty alternative is lost" % true_self[0])
                elif not true_other:
                    seen[(r_, "optional side")] = ("violation", "alternative `%s` is made optional on a path where the other alternative is not known to be empty" % r_)
                else:
                    seen.setdefault((r_, "optional side"), ("ok", "%s? under %s(%s)" % (r_, true_other[0], other)))
        for key, (st, msg) in sorted(seen.items()):
            n2 += 1
            if st == "violation":
                ctx.violation("UNI-2", (u.path, key[1]), msg, u.loc())
            else:
                ctx.ok("UNI-2", "%s:%s" % (u.path, msg), {"paths": len(leaves)}, u.loc())
    if ctx.floor("UNI-2", "functions whose result can be an alternation of their two arguments", n_u, 1):
        ctx.floor("UNI-2", "optional-side constructions", n2, 2)


def con1(ctx, lib):
    """CON-1: the sibling of union() that concatenates two optional expressions keeps the order of its operands: in every returned expression everything derived from the
    first parameter precedes everything derived from the second (abstract paths, constructor helpers inlined; GraphemeCluster::merge(x, y) reads x before y).
    REV-1: no element-wise copy that prepends (`insert(0, item)` inside a forward loop), which reverses the copied run."""
    from sa import ccp, guards
    opt = "&std::option::Option<%s>" % EXPR
    cands = [b for b in lib.bodies if b.kind in ("assoc_fn", "fn") and len([t for t in b.sig_inputs if t == opt]) == 2 and b.sig_output == opt[1:]]
    preds = {b.path for b in lib.bodies if b.sig_inputs == ["&" + EXPR] and b.sig_output == "bool"}
    n = 0
    for u in cands:
        pnames = [u.locals[i + 1].get("name") or "arg%d" % (i + 1) for i, t in enumerate(u.sig_inputs) if t == opt]

        def inl(nm):
            x = lib.body(nm)
            return x is not None and nm != u.path and x.sig_output in (EXPR, opt[1:]) and nm not in preds and not x.derived and not x.impl_trait
        leaves = ccp.Machine([lib], inline=inl, max_leaves=6000).run(u, None)
        rets = [l for l in leaves if l.kind == "return"]
        if any(isinstance(x, ccp.Agg) and x.kind == "adt" and x.label.endswith("::Alternation") for l in rets for x in _walk_v(l.value)):
            continue        # that one is union()
        if not any(isinstance(x, ccp.Agg) and x.kind == "adt" and x.label.endswith("::Concatenation") for l in rets for x in _walk_v(l.value)):
            continue
        n += 1

        def seq(v):
            if isinstance(v, ccp.Sym):
                return [v.name] if v.name in pnames else []
            out = []
            kids = []
            if isinstance(v, ccp.Agg):
                kids = list(v.fields)
                if v.kind == "adt" and v.label.endswith(("::Concatenation", "::Literal", "::Repetition", "::Alternation", "::CharacterClass")):
                    kids = [k for k in kids if not (isinstance(k, (ccp.Fld, ccp.Const)) and "config" in ccp.show(k))]
            elif isinstance(v, ccp.Call):
                kids = list(v.args)
            elif isinstance(v, ccp.Fld):
                kids = [v.base]
            else:
                for nm in ("a", "b", "v"):
                    k = getattr(v, nm, None)
                    if isinstance(k, ccp.V):
                        kids.append(k)
            for k in kids:
                if isinstance(k, ccp.V):
                    out += seq(k)
            return out
        bad = None
        blind = None
        for l in rets:
            txt = ccp.show(l.value)
            if "<loop" in txt or "⊤" in txt:
                blind = txt[:80]
                continue
            sq = [x for i, x in enumerate(seq(l.value)) if i == 0 or x != seq(l.value)[i - 1]] if l.value is not None else []
            sq2 = []
            for x in seq(l.value):
                if not sq2 or sq2[-1] != x:
                    sq2.append(x)
            if len(sq2) > 2 or (len(sq2) == 2 and sq2 != pnames):
                bad = (sq2, txt)
        if bad:
            ctx.violation("CON-1", (u.path, "operand order"), "a result of the concatenation reads its operands in the order %s (expected %s before %s): the text of the two "
                          "operands is swapped or interleaved: %s" % (bad[0], pnames[0], pnames[1], bad[1][:160]), u.loc())
        elif blind:
            ctx.undecided("CON-1", u.path, "a result is assembled in a loop the analysis cannot order (%s)" % blind, u.loc())
        else:
            ctx.ok("CON-1", u.path, {"paths": len(rets)}, u.loc())
    ctx.floor("CON-1", "functions concatenating two optional expressions", n, 1)
    # REV-1
    nrev = 0
    for b in lib.bodies:
        if b.derived:
            continue
        fi = None
        for bi, t in b.calls():
            if not (callee_name(t) or "").endswith("Vec::<T, A>::insert") or len(t["args"]) != 3:
                continue
            fi = fi or guards.FnInfo.of(b)
            idx = local.peel(fi.defs.operand(t["args"][1]))
            if local.const_value(idx) != 0:
                continue
            item = fi.defs.operand(t["args"][2])
            nx = [x for x in local.walk(item) if x[0] == "call" and x[1].endswith("Iterator>::next") and len(x) > 3]
            loops = fi.cfg.natural_loops()
            inloop = [x for x in nx if any(x[3] in body and bi in body for body in loops.values())]
            if not inloop:
                continue
            nrev += 1
            rev = any(y[0] == "call" and re.search(r"::rev$|::reverse$|DoubleEndedIterator>::next_back$", y[1]) for x in inloop for y in local.walk(x))
            if rev:
                ctx.ok("REV-1", b.path + ":prepend of a reversed run", None, b.loc(t.get("line")))
            else:
                ctx.violation("REV-1", (b.path, "prepend in a forward loop"), "items are copied with insert(0, item) while iterating forward: the copied run arrives reversed "
                              "(a literal `dr` in front of `op` becomes `rdop`)", b.loc(t.get("line")))
    ctx.extra["rev1_prepend_loops"] = nrev


# ----------------------------------------------------------------------------- BRZ-1: state elimination follows the algebraic schema

def brz1(ctx, lib):
    """In the function that eliminates states (ndarray system a[i,j], b[i]) every update has the shape of Brzozowski's method:
         b[n]   = a[n,n]* . b[n]            a[n,j] = a[n,n]* . a[n,j]
         b[i]   = b[i] + a[i,n] . b[n]      a[i,j] = a[i,j] + a[i,n] . a[n,j]
       with n the variable of the reversed outer loop."""
    from sa import guards
    fs = [b for b in lib.bodies if b.kind == "assoc_fn" and b.sig_output == EXPR and any(t.startswith("dfa::Dfa") for t in b.sig_inputs)]
    if len(fs) != 1:
        ctx.anchor_lost("BRZ-1", "Expression::from(Dfa, ..) (found %d)" % len(fs))
        return
    F = fs[0]
    fi = guards.FnInfo.of(F)
    d = fi.defs

    def lv(o):
        """loop variable identity: block of the `next` call it comes from (and whether the iterator is reversed)"""
        o = local.peel(o)
        for x in local.walk(o):
            if x[0] == "call" and x[1].endswith("::next"):
                # adapters on the iterator itself (receiver chain), not in its bounds
                chain = []
                cur = local.peel(x[2][0]) if x[2] else None
                while cur is not None and cur[0] == "call" and cur[2]:
                    chain.append(cur[1])
                    cur = local.peel(cur[2][0])
                rev = any(c.endswith("::rev") for c in chain)
                enum = any(c.endswith("::enumerate") for c in chain)
                return ("v", x[3], rev, enum)
        return None

    def term(o, depth=0):
        o = local.peel(o)
        if depth > 8:
            return ("?",)
        if o[0] == "call":
            n = o[1]
            if "Index<I> for ndarray::ArrayBase" in n or "IndexMut<I> for ndarray::ArrayBase" in n:
                idx = local.peel(o[2][1])
                if idx[0] == "agg" and idx[1] == "tuple":
                    return ("a", lv(idx[3][0]), lv(idx[3][1]))
                return ("b", lv(idx))
            cb = lib.body(n)
            if cb is not None:
                return (n.rsplit("::", 1)[1],) + tuple(term(a, depth + 1) for a in o[2][:2] if True)
        return ("?", local.show(o)[:40])

    stores = []
    for bi, t in F.calls():
        n = callee_name(t) or ""
        if "IndexMut<I> for ndarray::ArrayBase" not in n:
            continue
        dest = t["dest"]["l"]
        tgt = term(("call", n, [d.operand(a) for a in t["args"]], bi))
        rhs = None
        for bj, blk in F.iter_blocks():
            for s in blk["stmts"]:
                if s["k"] == "assign" and s["place"]["l"] == dest and s["place"]["proj"] and s["place"]["proj"][0]["k"] == "deref":
                    rhs = d.rvalue(s["rv"])
        if rhs is None:
            continue
        stores.append((t.get("line"), tgt, term(rhs) if local.peel(rhs)[0] == "call" else ("other", local.show(rhs)[:60]), rhs))
    elim = [(ln, tg, r) for ln, tg, r, _ in stores if r[0] in ("concatenate", "union") and not any(v and v[3] for v in tg[1:] if isinstance(v, tuple))]
    if not ctx.floor("BRZ-1", "elimination updates (stores of concatenate/union results into the equation system)", len(elim), 4):
        return
    nvars = {v for _, tg, _ in elim for v in tg[1:] if isinstance(v, tuple) and v[2]}
    if len(nvars) != 1:
        ctx.undecided("BRZ-1", F.path, "expected exactly one reversed elimination loop variable, found %d" % len(nvars), F.loc())
        return
    N = list(nvars)[0]
    names = set()
    for ln, tg, r in elim:
        ok = False
        why = ""
        if r[0] == "concatenate" and len(r) == 3 and r[1][0] == "repeat_zero_or_more_times":
            star = r[1][1]
            rest = r[2]
            if tg[0] == "b":
                ok = star == ("a", N, N) and rest == ("b", N) and tg == ("b", N)
                why = "expected b[n] = a[n,n]* . b[n]"
            else:
                ok = star == ("a", N, N) and tg[1] == N and rest == tg and tg[2] != N
                why = "expected a[n,j] = a[n,n]* . a[n,j]"
        elif r[0] == "union" and len(r) == 3 and r[2][0] == "concatenate" and len(r[2]) == 3:
            old, (_, left, right) = r[1], r[2]
            if tg[0] == "b":
                ok = old == tg and left == ("a", tg[1], N) and right == ("b", N) and tg[1] != N
                why = "expected b[i] = b[i] + a[i,n] . b[n]"
            else:
                ok = old == tg and left == ("a", tg[1], N) and right == ("a", N, tg[2]) and tg[1] != N and tg[2] != N
                why = "expected a[i,j] = a[i,j] + a[i,n] . a[n,j]"
        else:
            why = "update is neither x = a[n,n]* . x nor x = x + a[i,n] . y"
        if ok:
            ctx.ok("BRZ-1", "%s:%s" % (F.path, why.replace("expected ", "")), None, F.loc(ln))
        else:
            ctx.violation("BRZ-1", (F.path, why.replace("expected ", "")), "state-elimination update at this line does not have the shape of the algebraic method (%s); "
                          "found target %s, value %s" % (why, _t(tg, N), _t(r, N)), F.loc(ln))


def brz0(ctx, lib):
    """BRZ-0: the equation system handed to the elimination is the automaton: row i = i-th state of the traversal that starts at the initial state;
    b[i] = epsilon exactly under is_final_state(state_i); a[i, j] receives the label of each outgoing edge of state_i with j = position of the edge's target
    in the same state list (united with an entry already there); the result is b[0]."""
    from sa import guards
    fs = [b for b in lib.bodies if b.kind == "assoc_fn" and b.sig_output == EXPR and any(t.startswith("dfa::Dfa") for t in b.sig_inputs)]
    if len(fs) != 1:
        ctx.anchor_lost("BRZ-0", "Expression::from(Dfa, ..) (found %d)" % len(fs))
        return
    F = fs[0]
    fi = guards.FnInfo.of(F)
    d = fi.defs

    def enum_item(o):
        """(block of the Enumerate::next call, component) if o is a component of the enumerate item"""
        o = local.peel(o)
        comp = None
        cur = o
        while cur[0] in ("field", "deref", "ref", "downcast"):
            if cur[0] == "field" and comp is None and cur[1] in (0, 1) and local.peel(cur[2])[0] == "field":
                comp = cur[1]
            cur = local.peel(cur[2] if cur[0] in ("field",) else cur[1] if cur[0] in ("deref", "ref") else cur[2])
        if cur[0] == "call" and cur[1].endswith("Enumerate<I> as std::iter::Iterator>::next"):
            return (cur[3], comp, cur)
        return None

    stores = []
    for bi, t in F.calls():
        n = callee_name(t) or ""
        if "IndexMut<I> for ndarray::ArrayBase" not in n:
            continue
        idx = local.peel(d.operand(t["args"][1]))
        dest = t["dest"]["l"]
        rhs = None
        for bj, blk in F.iter_blocks():
            for s_ in blk["stmts"]:
                if s_["k"] == "assign" and s_["place"]["l"] == dest and s_["place"]["proj"] and s_["place"]["proj"][0]["k"] == "deref":
                    rhs = d.rvalue(s_["rv"])
        if rhs is None:
            continue        # a mutable borrow of the entry without a store through it (e.g. `.take()`)
        stores.append((bi, t, idx, rhs))
    nb = na = 0
    states_term = None
    for bi, t, idx, rhs in stores:
        if idx[0] == "agg" and idx[1] == "tuple":
            e = enum_item(idx[3][0])
            if e is None or e[1] != 0:
                continue
            # ---- a[(i, j)]
            na += 1
            j = local.peel(idx[3][1])
            pos = [x for x in local.walk(j) if x[0] == "call" and x[1].endswith("Iterator>::position")]
            same_list = False
            by_target = False
            if pos:
                lst = [x for x in local.walk(pos[0][2][0]) if x[0] == "call" and lib.body(x[1]) is not None]
                enum_src = [x for x in local.walk(e[2]) if x[0] == "call" and lib.body(x[1]) is not None]
                same_list = bool(lst) and bool(enum_src) and lst[0][1] == enum_src[0][1] and lst[0][3] == enum_src[0][3]
                clo = local.peel(pos[0][2][1])
                if clo[0] == "agg" and clo[1] == "closure" and lib.body(clo[2]) is not None:
                    caps = " ".join(local.show(c_) for c_ in clo[3])
                    by_target = "::target(" in caps or "target" in " ".join(c_["name"] for c_ in lib.body(clo[2]).captures)
                    r = local.show(local.Defs(lib.body(clo[2])).local(0))
                    by_target = by_target or "target" in r
            label = any(x[0] == "call" and x[1].endswith("::weight") for x in local.walk(rhs)) if rhs is not None else False
            # the stored value must not depend on a variable that lives across different columns of the row (an accumulator declared per row and updated per group)
            loops_ = fi.cfg.natural_loops()
            inner = [(h, body) for h, body in loops_.items() if bi in body and e[0] not in (h,) and e[0] not in body - {h} or (bi in body and h != e[0] and e[0] not in body)]
            inner = [(h, body) for h, body in loops_.items() if bi in body and e[0] not in body]
            carried = None
            if inner and rhs is not None:
                h_, body_ = min(inner, key=lambda x: len(x[1]))
                # outermost loop that contains the store but not the row iterator's next(): the loop over the edges / groups of this row
                h_, body_ = max(inner, key=lambda x: len(x[1]))
                seen_l, work_l = set(), []

                def locals_of(j_):
                    if isinstance(j_, dict):
                        if "l" in j_ and "proj" in j_:
                            yield j_["l"]
                        for v_ in j_.values():
                            yield from locals_of(v_)
                    elif isinstance(j_, list):
                        for v_ in j_:
                            yield from locals_of(v_)
                dest_l = t["dest"]["l"]
                for bj, blk in F.iter_blocks():
                    for s_ in blk["stmts"]:
                        if s_["k"] == "assign" and s_["place"]["l"] == dest_l and s_["place"]["proj"]:
                            work_l += list(locals_of(s_["rv"]))
                while work_l:
                    l_ = work_l.pop()
                    if l_ in seen_l or l_ <= F.arg_count:
                        continue
                    seen_l.add(l_)
                    blocks_ = []
                    for dd in d.defs.get(l_, []):
                        blocks_.append(dd[1])
                        if dd[0] == "assign":
                            work_l += list(locals_of(dd[3]["rv"]))
                        else:
                            work_l += [x for a_ in dd[2]["args"] for x in locals_of(a_)]
                    ins_ = [b_ for b_ in blocks_ if b_ in body_]
                    outs_ = [b_ for b_ in blocks_ if b_ not in body_]
                    ty_ = norm(F.locals[l_]["ty"])
                    if ins_ and outs_ and "Expression" in ty_:
                        carried = (l_, F.locals[l_].get("name") or "_%d" % l_)
            if carried:
                ctx.violation("BRZ-0", (F.path, "entry depends on other columns"), "the value stored into a[i, j] depends on `%s`, which is initialised once per row and updated for every "
                              "column: labels of edges to one target state are carried over into the entry of another target state" % carried[1], F.loc(t.get("line")))
            elif not pos:
                ctx.undecided("BRZ-0", F.path, "cannot recognise how the column of an edge's entry is computed", F.loc(t.get("line")))
            elif not same_list:
                ctx.violation("BRZ-0", (F.path, "column index"), "the column of an edge's entry is not the position of the edge's target in the state list that numbers the rows", F.loc(t.get("line")))
            elif not by_target:
                ctx.violation("BRZ-0", (F.path, "column index"), "the column of an edge's entry is looked up by something other than the edge's target state", F.loc(t.get("line")))
            elif not label:
                ctx.violation("BRZ-0", (F.path, "edge entry"), "the entry stored for an edge is not built from the edge's label", F.loc(t.get("line")))
            else:
                ctx.ok("BRZ-0", F.path + ":a[i, position(target)] = label (united with an existing entry)", None, F.loc(t.get("line")))
        else:
            e = enum_item(idx)
            if e is None or e[1] != 0:
                continue
            # ---- b[i]
            nb += 1
            def is_eps(o_, depth=0):
                if o_ is None:
                    return False
                if any(local.const_value(x) in ("", b"") for x in local.walk(o_)) and any(x[0] == "call" and x[1].endswith("new_literal") for x in local.walk(o_)):
                    return True
                if depth < 2:
                    for x in local.walk(o_):
                        hb = None
                        if x[0] == "call" and lib.body(x[1]) is not None and not x[1].endswith("new_literal"):
                            hb = lib.body(x[1])
                        if x[0] == "agg" and x[1] == "closure" and lib.body(x[2]) is not None:
                            hb = lib.body(x[2])
                        if hb is not None and is_eps(local.Defs(hb).local(0), depth + 1):
                            return True
                return False
            eps = is_eps(rhs)
            fin = False
            for g in guards.guards(F, bi):
                o = local.peel(g["origin"])
                if o[0] == "call" and lib.body(o[1]) is not None and lib.body(o[1]).sig_output == "bool" and guards.edge_truth(g) is True \
                        and fi.cfg.edge_dominates(g["block"], g["succ"], bi):
                    st = enum_item(o[2][1]) if len(o[2]) > 1 else None
                    if st is not None and st[0] == e[0] and st[1] == 1:
                        fin = True
            if not eps:
                ctx.violation("BRZ-0", (F.path, "final entry"), "b[i] of a final state is not the empty literal", F.loc(t.get("line")))
            elif not fin:
                ctx.violation("BRZ-0", (F.path, "final entry"), "b[i] = epsilon is not guarded by the finality of the i-th state itself", F.loc(t.get("line")))
            else:
                ctx.ok("BRZ-0", F.path + ":b[i] = epsilon iff state_i is final", None, F.loc(t.get("line")))
    ctx.floor("BRZ-0", "initial entries of the equation system (final states, edges)", nb + na, 2)
    # the result is b[0]
    r = d.local(0)
    idx0 = [x for x in local.walk(r) if x[0] == "call" and "Index<I> for ndarray::ArrayBase" in x[1]]
    first0 = [x for x in local.walk(r) if x[0] == "call" and re.search(r"ArrayBase<S, D>>::first$|<impl \[T\]>::first$", x[1])]
    if (idx0 and all(local.const_value(local.peel(x[2][1])) == 0 for x in idx0)) or (first0 and not idx0):
        ctx.ok("BRZ-0", F.path + ":result = b[0]", None, F.loc())
    else:
        ctx.violation("BRZ-0", (F.path, "result"), "the returned expression is not entry 0 of the solved system (%s)" % local.show(r)[:100], F.loc())
    # row 0 is the initial state: the traversal producing the state list starts there
    order = [b for b in lib.bodies if b.kind == "assoc_fn" and b.sig_inputs == ["&dfa::Dfa"] and (b.sig_output or "").startswith("std::vec::Vec<petgraph")]
    for ob in order:
        do = local.Defs(ob)
        starts = [t for _, t in ob.calls() if re.search(r"visit::(?:Dfs|Bfs|DfsPostOrder|Topo)::<[^>]*>::new$", callee_name(t) or "")]
        if not starts:
            ctx.undecided("BRZ-0", ob.path, "the state list is not produced by a petgraph traversal", ob.loc())
            continue
        st = local.peel(do.operand(starts[0]["args"][1]))
        while st[0] in ("deref", "ref"):
            st = local.peel(st[1])
        if st[0] == "field" and st[3] == "dfa::Dfa" and "initial" in st[1] and (callee_name(starts[0]) or "").split("::<")[0].endswith("Dfs"):
            ctx.ok("BRZ-0", ob.path + ":traversal starts at the initial state", None, ob.loc())
        else:
            ctx.violation("BRZ-0", (ob.path, "start of the traversal"), "the state list does not start with the automaton's initial state (%s via %s): b[0] would describe another state"
                          % (local.show(st)[:40], callee_name(starts[0])), ob.loc())


def _t(t, N):
    if not isinstance(t, tuple):
        return str(t)
    if t and t[0] == "v":
        return "n" if t == N else "v%d" % t[1]
    if t and t[0] in ("a", "b"):
        return "%s[%s]" % (t[0], ",".join(_t(x, N) for x in t[1:]))
    return "%s(%s)" % (t[0], ", ".join(_t(x, N) for x in t[1:]))
