"""C14 — Python binding (python view: cargo check --features python): delegation, messages, escape widths."""
import os
import re

from sa import ccp, guards, local
from sa.facts import callee_name, norm
from . import binding, common


def static_regex_patterns(lib):
    """lazy static path -> constant pattern of Regex::new in its initialiser"""
    out = {}
    for b in lib.bodies:
        m = re.match(r"^<(.+) as std::ops::Deref>::deref::__static_ref_initialize$", b.path)
        if not m:
            continue
        d = local.Defs(b)
        for bi, t in b.calls():
            if callee_name(t) == "regex::Regex::new":
                v = local.const_value(local.peel(d.operand(t["args"][0])))
                if isinstance(v, str):
                    out[m.group(1)] = v
    return out


def run(ctx):
    ctx.rule("PYW-1", "every public setter of the library (except the CLI-only one) has a py_<name> sibling exported under the same Python name (#[pyo3(name=..)], pre-expansion) "
                      "with an equal effect summary, returning the receiver")
    ctx.rule("PYW-3", "threshold siblings store only values >= 1 and otherwise return Err(PyValueError(<the library's message>)); the constructor returns "
                      "Err(PyValueError(<the library's message>)) iff the list is empty")
    ctx.rule("PYW-4", "build returns the library's build(), passed through the escape rewriter whenever a setting is on under which the library prints \\u{..} escapes (escaping; verbose mode for non-ASCII white space)")
    ctx.rule("PYW-5", "the escape-rewriting pattern consumes escaped backslashes by an alternative of its own, so that the backslash of a rewritten escape is never the second half of an escaped backslash")
    ctx.rule("PYW-2", "producer/consumer width agreement: every hex width the Rust side can emit in \\u{..} (2..6 digits for non-ASCII scalars, 4 for UTF-16 units) is matched by a "
                      "rewriting pattern whose replacement yields \\u + 4 or \\U + 8 hex digits")
    ctx.rule("PYI", "grex.pyi declares the same method names")
    ctx.assume("pyo3's generated glue calls the user-written method bodies; CPython's re accepting the result is not decided")
    prog = common.view(ctx, "python")
    lib = prog.lib
    api = common.spec("api")
    meths = {}
    for b in lib.bodies:
        if b.kind == "assoc_fn" and b.path.startswith("python::<impl builder::RegExpBuilder>::") and not b.from_expansion:
            meths[b.path.rsplit("::", 1)[1]] = b
    if not ctx.floor("PYW-1", "user-written methods of the Python class", len(meths), 18):
        return
    pynames = {}
    for a in lib.attrs:
        if a["kind"] == "impl_fn" and a["container"].startswith("python::"):
            for at in a["attrs"]:
                m = re.search(r'pyo3\(name\s*=\s*"([^"]+)"\)', at["text"])
                if m:
                    pynames[a["name"]] = m.group(1)
            if any(at["path"] in ("new", "classmethod") for at in a["attrs"]):
                pynames.setdefault(a["name"], a["name"])
    if not ctx.floor("PYW-1", "#[pyo3(name=..)] attributes read before expansion", len([k for k in pynames if k.startswith("py_")]), 16):
        return

    def name_of(setter):
        for rust, py in pynames.items():
            if py == setter and rust in meths and rust.startswith("py_"):
                return rust
        return "py_" + setter

    def expected_return(v, is_thr):
        if is_thr:
            if not (isinstance(v, ccp.Agg) and v.label and v.label.endswith("::Ok") and v.fields):
                return False
            v = v.fields[0]
        return isinstance(v, ccp.Sym) and v.name == "self_"

    # rename rule prefixes: binding uses <prefix>-1 / <prefix>-2
    n = binding.check_binding(ctx, lib, "PYW", meths, name_of, ("self_", "self"), expected_return, thresholds_signed=True)
    # map PYW-2 from binding (thresholds) to PYW-3 naming in evidence: keep ids as emitted but document
    ctx.rule("PYW-2(thresholds)", "emitted by the shared binding rule as PYW-2 for threshold methods (same content as PYW-3)")
    ctx.floor("PYW-1", "setter siblings in agreement", n, 16)
    for rust, py in pynames.items():
        if rust.startswith("py_with") or rust.startswith("py_without"):
            if py != rust[3:]:
                ctx.violation("PYW-1", ("python::" + rust, "exported name"), "method %s is exported to Python as %r, the library's name is %r" % (rust, py, rust[3:]))
    # constructor
    nb = meths.get("new")
    if nb is None:
        ctx.anchor_lost("PYW-3", "python constructor `new`")
    else:
        leaves = ccp.Machine([lib]).run(nb)
        okl = [l for l in leaves if isinstance(l.value, ccp.Agg) and l.value.label and l.value.label.endswith("::Ok")]
        erl = [l for l in leaves if isinstance(l.value, ccp.Agg) and l.value.label and l.value.label.endswith("::Err")]
        bad = None
        if len(leaves) != 2 or len(okl) != 1 or len(erl) != 1:
            bad = "expected one Ok and one Err path"
        else:
            msg, ctor = binding.err_message(erl[0].value)
            e_ok = [(a, v) for a, v in okl[0].label if "is_empty(" in a]
            e_er = [(a, v) for a, v in erl[0].label if "is_empty(" in a]
            if msg != api["constructor_panic"]:
                bad = "empty list raises %r, the library's message is %r" % (msg, api["constructor_panic"])
            elif ctor is None or "PyValueError" not in ctor:
                bad = "empty list raises %s, documented: ValueError" % ctor
            elif not (e_ok and e_ok[0][1] == "False" and e_er and e_er[0][1] == "True" and len(okl[0].label) == 1 and len(erl[0].label) == 1):
                bad = "Ok/Err split is not exactly an emptiness test: %s / %s" % (okl[0].label, erl[0].label)
        if bad:
            ctx.violation("PYW-3", (nb.path, "empty input"), bad, nb.loc())
        else:
            ctx.ok("PYW-3", nb.path, {"empty": "Err(PyValueError(msg))"}, nb.loc())
    # error constructor of thresholds must be PyValueError
    for nme in ("py_with_minimum_repetitions", "py_with_minimum_substring_length"):
        b = meths.get(nme)
        if b is not None:
            for l in ccp.Machine([lib]).run(b):
                msg, ctor = binding.err_message(l.value)
                if msg is not None and (ctor is None or "PyValueError" not in ctor):
                    ctx.violation("PYW-3", (b.path, "exception type"), "non-positive threshold raises %s, documented: ValueError" % ctor, b.loc())
    # PYW-4
    roles = common.role_fields(ctx, lib, want=("escape", "verbose"))
    bb = meths.get("py_build")
    rewriter = None
    # which settings make the library print `\u{..}` escapes: the escape setting, and every setting that guards a use of char::escape_unicode in the pattern printer
    # (verbose mode rewrites the non-ASCII white space it would otherwise ignore)
    emitting = {"escape"}
    fmtb = None
    for b0 in lib.bodies:
        if b0.impl_trait == "std::fmt::Display" and b0.path.endswith("::fmt") and b0.impl_self and b0.impl_self.startswith("regexp::RegExp"):
            fmtb = b0
    if fmtb is not None:
        field_role = {f: r for r, f in common.role_fields(ctx, lib, rid="ROLE", want=()).items()} if False else {}
        allroles = common.role_fields(ctx, lib, want=())
        field_role = {f: r for r, f in allroles.items()}
        for bi, t in fmtb.calls():
            if (callee_name(t) or "").endswith("<impl char>::escape_unicode"):
                for g in guards.guards(fmtb, bi):
                    f = common.origin_config_field(g["origin"])
                    if f in field_role and guards.edge_truth(g) is True:
                        emitting.add(field_role[f])
    if bb is None:
        ctx.anchor_lost("PYW-4", "py_build")
    else:
        leaves = ccp.Machine([lib]).run(bb)
        okb = True
        why = ""
        for l in leaves:
            facts = {r: l.fact(ccp.Fld(ccp.Fld(ccp.Sym("self"), "config"), roles.get(r))) for r in sorted(emitting) if roles.get(r)}
            v = l.value
            core = v
            wrapped = False
            if isinstance(v, ccp.Call) and lib.body(v.callee) is not None and v.callee != common.BUILDER + "::build" and v.args:
                wrapped = True
                rewriter = lib.body(v.callee)
                core = v.args[0]
            is_core = isinstance(core, ccp.Call) and core.callee == common.BUILDER + "::build"
            if not is_core:
                okb = False
                why = "path %s returns %s" % (l.label, ccp.show(v)[:120])
            elif not wrapped and any(x is not False for x in facts.values()):
                okb = False
                on = [r for r, x in facts.items() if x is not False]
                why = "the pattern is returned without the rewriting although %s can be on (path %s): the library then prints \\u{..} escapes, which Python's re rejects" % (
                    " / ".join(on), ", ".join("%s=%s" % kv for kv in l.label) or "unconditional")
            elif wrapped and all(x is False for x in facts.values()) and len(facts) == len(emitting):
                pass        # rewriting a pattern without escapes changes nothing (PYW-5)
        if len(set(roles.get(r) for r in emitting)) != len(emitting) or any(roles.get(r) is None for r in emitting):
            ctx.undecided("PYW-4", bb.path, "cannot resolve the settings %s to fields" % sorted(emitting), bb.loc())
        elif okb:
            ctx.ok("PYW-4", bb.path, {"rewriter": rewriter.path if rewriter else None, "escape_emitting_settings": sorted(emitting), "paths": len(leaves)}, bb.loc())
        else:
            ctx.violation("PYW-4", (bb.path, "return"), "build does not return the library's pattern in Python syntax: %s" % why, bb.loc())
    # PYW-2 widths
    if rewriter is not None:
        widths(ctx, lib, rewriter)
    # PYI: text check of the stub file
    from sa import views
    pyi = os.path.join(views.REPO, "grex.pyi")
    if os.path.exists(pyi):
        txt = open(pyi).read()
        declared = set(re.findall(r"def (\w+)\(", txt))
        want = {s for s, d in api["setters"].items() if not d.get("cli_only")} | {"build", "from_test_cases"}
        missing = sorted(want - declared)
        if missing:
            ctx.violation("PYI", ("grex.pyi", "missing"), "stub file does not declare %s" % missing)
        else:
            ctx.ok("PYI", "grex.pyi", {"declared": len(declared)})


def widths(ctx, lib, rw):
    pats = static_regex_patterns(lib)
    d = local.Defs(rw)
    consumers = []
    for bi, t in rw.calls():
        if not (callee_name(t) or "").startswith("regex::Regex::replace"):
            continue
        rx = d.operand(t["args"][0])
        st = [x for x in local.walk(rx) if x[0] == "static"]
        pat = pats.get(st[0][1]) if st else None
        if pat is None:
            cv = [local.const_value(x) for x in local.walk(rx) if isinstance(local.const_value(x), str)]
            pat = cv[0] if cv else None
        rep = d.operand(t["args"][2])
        clo = [x for x in local.walk(rep) if x[0] == "agg" and x[1] == "closure"]
        cb = lib.body(clo[0][2]) if clo else None
        if cb is None:
            # a named function used as the replacer
            fns = [x[2]["path"] for x in local.walk(rep) if x[0] == "const" and isinstance(x[2], dict) and x[2].get("t") == "fn"]
            cb = lib.body(norm(fns[0])) if fns else None
        consumers.append((bi, t, pat, cb))
    if not ctx.floor("PYW-2", "escape rewriting passes", len(consumers), 1):
        return
    producer = set(len("%x" % cp) for cp in (0x80, 0xFF, 0x100, 0xFFF, 0x1000, 0xFFFF, 0x10000, 0xFFFFF, 0x100000, 0x10FFFF)) | {4}
    consumed = {}
    CORE = r"\\\\u\\\{\(\[0-9a-f(?:A-F)?\]\{(\d+)(?:,(\d+))?\}\)\\\}"
    for bi, t, pat, cb in consumers:
        branches = (pat or "").split("|")
        cores = [(i, re.fullmatch(CORE, br)) for i, br in enumerate(branches)]
        cores = [(i, mm) for i, mm in cores if mm]
        others = [br for i, br in enumerate(branches) if i not in [c[0] for c in cores]]
        if len(cores) != 1 or cb is None or "(" in "".join(others):
            if cb is not None and re.search(CORE, pat or ""):
                # the escape core is there, but wrapped in something this rule does not model (e.g. an optional prefix group): the pair guard below still applies
                if "\\\\\\\\" not in (pat or "").split("|"):
                    ctx.violation("PYW-5", (rw.path, "escaped backslash not consumed"),
                                  "the rewriting pattern %r has no alternative that consumes an escaped backslash (`\\\\\\\\`): the second half of an escaped backslash can be taken for "
                                  "the start of an escape (`\\\\u{3}`, the literal text \\uuu with its repetition converted, becomes \\\\u0003), and a guard on one preceding "
                                  "backslash skips genuine escapes after an escaped backslash" % pat, rw.loc(t.get("line")))
                    return
            ctx.undecided("PYW-2", rw.path, "cannot read rewriting pattern %r / its replacement" % pat, rw.loc(t.get("line")))
            return
        m = cores[0][1]
        # PYW-5: every other alternative is exactly an escaped backslash, and there is one
        if any(br != "\\\\\\\\" for br in others):
            ctx.undecided("PYW-2", rw.path, "the rewriting pattern %r has an alternative other than the escape and an escaped backslash" % pat, rw.loc(t.get("line")))
            return
        if not others:
            ctx.violation("PYW-5", (rw.path, "escaped backslash not consumed"),
                          "the rewriting pattern %r matches `\\u{h..}` wherever it occurs, also where the backslash is the second half of an escaped backslash: the library pattern "
                          "`\\\\u{3}` (the literal text \\uuu with its repetition converted) is rewritten to `\\\\u0003`, which no longer matches the test case" % pat, rw.loc(t.get("line")))
        else:
            ctx.ok("PYW-5", rw.path + ":escaped backslashes are consumed by their own alternative", {"pattern": pat}, rw.loc(t.get("line")))
        lo, hi = int(m.group(1)), int(m.group(2) or m.group(1))
        caps = ccp.Sym("caps")
        leaves = ccp.Machine([lib]).run(cb, [ccp.Sym("env"), caps] if cb.kind == "closure" else [caps])
        # paths on which the digits group did not take part (the escaped-backslash alternative matched): the match must be returned unchanged
        absent = [l for l in leaves if any(re.match(r"^discr\(regex::Captures::get\(caps, 1\)\)$", a) and v in ("0", "not in [1]") for a, v in l.label)]
        for l in absent:
            txt = ccp.show(l.value) if l.value is not None else ""
            if not (l.kind == "return" and re.fullmatch(r"`\{<regex::Captures as std::ops::Index<usize>>::index\(caps, 0\)\}`", txt)):
                ctx.violation("PYW-2", (cb.path, "escaped backslash rewritten"), "when only the escaped-backslash alternative matched the replacer returns %s instead of the match itself" % txt[:80], cb.loc())
        leaves = [l for l in leaves if l not in absent]
        if others and not absent:
            ctx.undecided("PYW-2", cb.path, "the replacer does not distinguish the escaped-backslash alternative from the escape", cb.loc())
            return
        for w in range(lo, hi + 1):
            outs = []
            for l in leaves:
                if l.kind != "return" or not isinstance(l.value, ccp.Tmpl):
                    continue
                feas = True
                for a, v in l.label:
                    mm = re.match(r"^(Lt|Le|Gt|Ge|Eq|Ne)\((.*len\(.*\)), (\d+)\)$", a)
                    m2 = re.match(r"^(Lt|Le|Gt|Ge|Eq|Ne)\((\d+), (.*len\(.*\))\)$", a)
                    if mm or m2:
                        if mm:
                            x, k, op = w, int(mm.group(3)), mm.group(1)
                        else:
                            x, k, op = int(m2.group(2)), w, m2.group(1)
                        r = {"Lt": x < k, "Le": x <= k, "Gt": x > k, "Ge": x >= k, "Eq": x == k, "Ne": x != k}[op]
                        if r != (v == "True"):
                            feas = False
                if feas:
                    outs.append(l)
            if len(outs) != 1:
                ctx.undecided("PYW-2", cb.path, "replacement for width %d is ambiguous (%d paths)" % (w, len(outs)), cb.loc())
                return
            parts = outs[0].value.parts
            lit = "".join(p for p in parts if isinstance(p, str))
            holes = [p for p in parts if not isinstance(p, str)]
            digits = None
            if len(holes) == 1 and parts and isinstance(parts[0], str) and isinstance(parts[-1], ccp.Hole):
                pad = re.search(r":0>(\d+)$", holes[0].fmt)
                digits = max(w, int(pad.group(1))) if pad else w
                mm = re.fullmatch(r"\\(u|U)(0*)", lit)
                if mm:
                    total = len(mm.group(2)) + digits
                    good = (mm.group(1) == "u" and total == 4) or (mm.group(1) == "U" and total == 8)
                    if good:
                        consumed[w] = (pat, ccp.show(outs[0].value))
                        continue
            ctx.violation("PYW-2", (cb.path, "replacement width %d" % w), "a %d-digit escape is rewritten to %s, which is not \\u + 4 or \\U + 8 hex digits" % (w, ccp.show(outs[0].value)), cb.loc())
    missing = sorted(producer - set(consumed))
    if missing:
        ex = {2: "U+00E9 -> \\u{e9}", 3: "U+07FF -> \\u{7ff}", 6: "U+10FFFF -> \\u{10ffff}", 5: "U+1F4A9 -> \\u{1f4a9}", 4: "U+20AC -> \\u{20ac}"}
        ctx.violation("PYW-2", (rw.path, "unconsumed widths " + ",".join(str(x) for x in missing)),
                      "the Rust side emits \\u{..} escapes with %s hex digits (e.g. %s) that no rewriting pattern matches: they reach Python unchanged, where \\u{..} is not valid syntax"
                      % (missing, "; ".join(ex[x] for x in missing if x in ex)), rw.loc())
    else:
        ctx.ok("PYW-2", rw.path, {"producer_widths": sorted(producer), "consumed": {str(k): v[1] for k, v in consumed.items()}}, rw.loc())
    if ctx.tier == "thorough":
        ctx.rule("VIEW-1", "every core function reachable from build() has an identical MIR dump in this view and in the default view")
        binding.cross_view(ctx, "VIEW-1", lib)
