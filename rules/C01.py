"""C01 — soundness: necessary structural conditions (finality transfer, escaping tables)."""
import re

from sa import ccp, guards, local
from sa.facts import callee_name, norm
from . import common

HASHSET_INSERT = re.compile(r"^std::collections::(?:HashSet::<T, S(?:, A)?>|BTreeSet::<T(?:, A)?>)::insert$")
EDGE_ITER = re.compile(r"petgraph::.*(?:Neighbors|Edges|EdgeReferences|EdgeIndices|Externals)\b")


def dfa_final_field(lib):
    """(adt path, field name) of the automaton's set of final states: the HashSet<usize> field of the struct that also owns a graph."""
    for path, a in lib.adts.items():
        if a["kind"] != "struct":
            continue
        fs = a["variants"][0]["fields"]
        if any("petgraph" in norm(f["ty"]) for f in fs):
            for f in fs:
                if re.match(r"^std::collections::(?:HashSet|BTreeSet)<usize", norm(f["ty"])):
                    return path, f["name"]
    return None, None


def loop_driver_types(body, block):
    """Types of the iterators driving the natural loops that contain `block`."""
    fi = guards.FnInfo.of(body)
    out = []
    for h, blocks in fi.cfg.loops_containing(block).items():
        t = body.blocks[h].get("term")
        if t and t["k"] == "call" and (callee_name(t) or "").endswith("::next") and t["args"]:
            pl = t["args"][0].get("place")
            out.append((h, norm(pl["ty"]) if pl else "?"))
        else:
            out.append((h, "?"))
    return out


def fin(ctx, lib):
    adt, field = dfa_final_field(lib)
    if adt is None:
        ctx.anchor_lost("FIN-1", "automaton struct with a graph and a HashSet<usize> of final states")
        return
    # functions that write the final-state field
    rebuilders = []
    inserters = []
    for b in lib.bodies:
        if b.derived:
            continue
        fi = None
        for bi, blk in b.iter_blocks():
            for s in blk["stmts"]:
                if s["k"] == "assign":
                    pr = s["place"]["proj"]
                    if pr and pr[-1]["k"] == "field" and norm(pr[-1].get("adt")) == adt and pr[-1].get("name") == field:
                        rebuilders.append((b, bi, s))
            t = blk.get("term")
            if t and t["k"] == "call" and HASHSET_INSERT.match(callee_name(t) or ""):
                fi = fi or guards.FnInfo.of(b)
                o = local.peel(fi.defs.operand(t["args"][0]))
                if o[0] == "field" and o[3] == adt and o[1] == field:
                    inserters.append((b, bi, t))
    # FIN-2: insertion of a test case marks its last state final on every path
    if ctx.floor("FIN-2", "inserts into the automaton's final-state set", len(inserters), 1):
        for b, bi, t in inserters:
            fi = guards.FnInfo.of(b)
            if fi.cfg.postdominates(bi, 0) and not fi.cfg.loops_containing(bi):
                ctx.ok("FIN-2", b.path + ":final insert post-dominates entry", None, b.loc(t.get("line")))
            else:
                ctx.violation("FIN-2", (b.path, "HashSet<usize>::insert"), "the last state of an inserted test case is not marked final on every path "
                              "(e.g. skipped for an empty test case)", b.loc(t.get("line")))
            # callers inside loops must call it in every iteration
            for cb, cbi, ct in guards.call_sites(lib, b.path):
                if cb.derived:
                    continue
                cfi = guards.FnInfo.of(cb)
                loops = cfi.cfg.loops_containing(cbi)
                if not loops:
                    continue
                for h, blocks in loops.items():
                    ht = cb.blocks[h].get("term")
                    if not (ht and ht["k"] == "call"):
                        continue
                    sw = cb.blocks[ht["target"]]["term"]
                    some = [tb for v, tb in sw.get("arms", []) if v == 1]
                    if not some:
                        continue
                    # can the header be reached again from the Some-arm without passing the call block?
                    succ = {k: [x for x in v if x != cbi] for k, v in cfi.cfg.succ.items() if k != cbi}
                    seen = {some[0]}
                    st = [some[0]]
                    skip = False
                    while st:
                        x = st.pop()
                        for y in succ.get(x, []):
                            if y == h:
                                skip = True
                            if y not in seen and y in blocks:
                                seen.add(y)
                                st.append(y)
                    if some[0] == cbi:
                        skip = False
                    if skip:
                        ctx.violation("FIN-2", (cb.path, b.path), "some iteration of the loop over test cases skips the insertion", cb.loc(ct.get("line")))
                    else:
                        ctx.ok("FIN-2", "%s:every iteration calls %s" % (cb.path, b.path), None, cb.loc(ct.get("line")))
    # FIN-1: rebuild after minimisation transfers finality per state
    rebuilds = [(b, bi, s) for b, bi, s in rebuilders if s["rv"]["k"] == "use" and "place" in s["rv"]["op"] and not s["rv"]["op"]["place"]["proj"]]
    if not ctx.floor("FIN-1", "assignments of a rebuilt final-state set", len(rebuilds), 1):
        return
    for b, bi, s in rebuilds:
        fi = guards.FnInfo.of(b)
        F = s["rv"]["op"]["place"]["l"]
        # follow plain moves back to the user variable
        for _ in range(8):
            ds = fi.defs.defs.get(F, [])
            if len(ds) == 1 and ds[0][0] == "assign" and ds[0][3]["rv"]["k"] == "use" and "place" in ds[0][3]["rv"]["op"] \
                    and not ds[0][3]["rv"]["op"]["place"]["proj"]:
                F = ds[0][3]["rv"]["op"]["place"]["l"]
            else:
                break
        src = fi.defs.local(F)
        if src[0] == "call" and re.search(r"collect|from_iter", src[1]):
            # mapping of the old final set: accepted if the source iterates the old final set
            if any(x[0] == "field" and x[1] == field for x in local.walk(src)):
                ctx.ok("FIN-1", b.path + ":final set mapped from the old final set", None, b.loc(s.get("line")))
                continue
        ins = []
        for bj, t in b.calls():
            if HASHSET_INSERT.match(callee_name(t) or ""):
                pl = t["args"][0].get("place")
                tgt = None
                if pl is not None:
                    from sa.ordertaint import _mut_target_local
                    tgt = _mut_target_local(b, pl["l"])
                if tgt == F:
                    ins.append((bj, t))
        if not ins:
            ctx.violation("FIN-1", (b.path, "no transfer"), "the rebuilt automaton's final-state set is never filled", b.loc(s.get("line")))
            continue
        per_state = []
        for bj, t in ins:
            drivers = loop_driver_types(b, bj)
            if not any(EDGE_ITER.search(ty) for _, ty in drivers):
                per_state.append((bj, t))
        if per_state:
            ctx.ok("FIN-1", b.path + ":finality transferred per state", {"inserts": len(ins)}, b.loc(per_state[0][1].get("line")))
        else:
            bj, t = ins[0]
            ctx.violation("FIN-1", (b.path, "HashSet<usize>::insert"),
                          "finality is transferred only inside a loop over graph edges (%s), i.e. only for edge *targets*: a final state without "
                          "incoming edge - the start state when \"\" is a test case - loses finality" % [ty for _, ty in loop_driver_types(b, bj)],
                          b.loc(t.get("line")))


def meta_oracle(ctx, prog):
    rs = prog.crate("regex_syntax.lib")
    b = rs.body("is_meta_character") if rs else None
    if b is None:
        ctx.anchor_lost("ESC-1", "regex_syntax::is_meta_character")
        return None
    c = ccp.Sym("c")
    leaves = ccp.Machine([rs]).run(b, [c])
    meta = set()
    for l in leaves:
        if l.kind == "return" and isinstance(l.value, ccp.Const) and l.value.v is True:
            vals = l.member.get(c.key())
            f = l.facts.get(c.key())
            if vals:
                meta |= {chr(v) for v in vals}
            elif isinstance(f, ccp.CharV):
                meta.add(f.c)
            else:
                ctx.undecided("ESC-1", "regex_syntax::is_meta_character", "a true-returning path without a character set")
                return None
    return meta


def find_escaper(lib):
    """The function that applies str::replace with patterns taken from iterating a constant array of strings."""
    hits = []
    for b in lib.bodies:
        if b.derived or b.kind == "closure":
            continue
        fi = None
        for bi, t in b.calls():
            if (callee_name(t) or "").endswith("<impl str>::replace") and len(t["args"]) == 3:
                fi = fi or guards.FnInfo.of(b)
                pat = fi.defs.operand(t["args"][1])
                if array_iter_source(pat) is not None:
                    hits.append(b)
                    break
    return hits


def find_escape_entry(lib):
    """The function through which literals get escaped: the table escaper itself, or - if that is a helper without the two
    bool flags - its (transitive) unique caller that has them."""
    from sa import guards as G
    out = []
    for E in find_escaper(lib):
        cur = E
        for _ in range(4):
            if len([t for t in cur.sig_inputs if t == "bool"]) >= 2:
                break
            callers = {b.path for b, _, _ in G.call_sites(lib, cur.path)}
            callers = {c for c in callers if lib.body(c) is not None}
            if len(callers) != 1:
                break
            nxt = lib.body(list(callers)[0])
            if nxt.kind == "closure":
                nxt = lib.body(nxt.parent) or nxt
            cur = nxt
        out.append(cur)
    return out


def array_iter_source(o):
    """If origin `o` is the element yielded by iterating a constant array/slice, return the list of elements."""
    for x in local.walk(o):
        if x[0] == "call" and x[1].endswith("::next"):
            for y in local.walk(x):
                if local.is_const(y) and isinstance(local.const_value(y), list):
                    return local.const_value(y)
    return None


def esc(ctx, prog, lib):
    meta = meta_oracle(ctx, prog)
    if meta is None:
        return
    ctx.extra["regex_meta_characters"] = "".join(sorted(meta))
    hits = find_escaper(lib)
    if len(hits) != 1:
        ctx.anchor_lost("ESC-1", "function escaping regex metacharacters by table (found %d)" % len(hits))
        return
    E = hits[0]
    fi = guards.FnInfo.of(E)
    d = fi.defs
    covered = {}
    whole_eq = []
    for bi, t in E.calls():
        n = callee_name(t) or ""
        if n.endswith("<impl str>::replace") and len(t["args"]) == 3:
            pat = d.operand(t["args"][1])
            rep = d.operand(t["args"][2])
            arr = array_iter_source(pat)
            if arr is not None:
                # replacement must be "\\" + the same element
                rtxt = local.show(rep)
                tb = [local.const_value(x) for x in local.walk(rep) if local.is_const(x) and isinstance(local.const_value(x), (bytes, bytearray))]
                okrep = bool(tb) and bytes(tb[0]) == b"\x01\\\xc0\x00" and array_iter_source(rep) == arr
                for el in arr:
                    if isinstance(el, str) and len(el) == 1:
                        covered[el] = ("table", okrep, t.get("line"))
                if not okrep:
                    ctx.violation("ESC-2", (E.path, "replacement"), "table-driven replace does not replace each symbol by a backslash followed by the same symbol (%s)" % rtxt[:120], E.loc(t.get("line")))
            else:
                p = local.peel(pat)
                r = local.peel(rep)
                pv, rv_ = local.const_value(p), local.const_value(r)
                if isinstance(pv, str) and len(pv) == 1 and isinstance(rv_, str):
                    covered[pv] = ("const", rv_, t.get("line"))
        elif n.endswith("PartialEq<&str>>::eq") or n.endswith("PartialEq<str>>::eq") or (n.endswith("::eq") and "String" in n):
            for a in t["args"]:
                o = local.peel(d.operand(a))
                if isinstance(local.const_value(o), str):
                    whole_eq.append((local.const_value(o), t.get("line")))
        else:
            # per-occurrence helper: crate function over the string that loops over its chars and compares with a constant
            hb = lib.body(n)
            if hb is not None and any(ty in ("&str", "&std::string::String") for ty in hb.sig_inputs) and hb.sig_output == "std::string::String":
                for c in chars_compared_in_loop(hb):
                    covered[c] = ("helper " + hb.path, None, t.get("line"))
    table = sorted(c for c, v in covered.items() if v[0] == "table")
    ctx.floor("ESC-1", "characters escaped by the constant table", len(table), 14)
    verbose_only = {"#"}
    class_only = {"&", "~"}
    need = meta - verbose_only - class_only
    missing = sorted(need - set(covered))
    if not (meta & verbose_only) <= {"#"}:
        pass
    for c in missing:
        extra = ""
        if any(w == c for w, _ in whole_eq):
            extra = " (only a stored string that *equals* %r is rewritten; an occurrence next to other code points of the same grapheme stays unescaped)" % c
            ctx.violation("ESC-2", (E.path, repr(c)), "metacharacter %r is not escaped per occurrence%s" % (c, extra), E.loc([l for w, l in whole_eq if w == c][0]))
        else:
            ctx.violation("ESC-1", (E.path, repr(c)), "regex metacharacter %r (regex_syntax::is_meta_character) is not escaped in literals" % c, E.loc())
    for c in sorted(need & set(covered)):
        ctx.ok("ESC-1", "%s:%r" % (E.path, c), {"by": covered[c][0]}, E.loc(covered[c][2]))
    # the escaped string is stored back for every element: through IndexMut (characters[i] = ..) or through the item of an iter_mut() loop (*character = ..)
    stores = [t for _, t in E.calls() if (callee_name(t) or "").endswith("IndexMut<I>>::index_mut")]
    deref_stores = []
    dE = local.Defs(E)
    for bi_, blk_ in E.iter_blocks():
        for st_ in blk_["stmts"]:
            if st_["k"] == "assign" and st_["place"]["proj"] and st_["place"]["proj"][0]["k"] == "deref" and "String" in norm(st_["place"].get("ty") or ""):
                tgt_ = dE.local(st_["place"]["l"])
                if any(x[0] == "call" and re.search(r"IterMut<'a, T> as std::iter::Iterator>::next$|::iter_mut$|::get_mut$", x[1]) for x in local.walk(tgt_)):
                    deref_stores.append((bi_, st_))
    stores = stores + [st_ for _, st_ in deref_stores]
    if not stores and E.sig_output == "std::string::String":
        # the table escaper is a pure helper &str -> String: its callers store the result
        for cb, _, _ in guards.call_sites(lib, E.path):
            root = lib.body(cb.parent) if cb.kind == "closure" and cb.parent else cb
            for bb in (cb, root):
                stores += [t for _, t in bb.calls() if (callee_name(t) or "").endswith("IndexMut<I>>::index_mut")
                           or (callee_name(t) or "").endswith("collect_vec") or (callee_name(t) or "").endswith("Iterator::collect")]
    # .. and for *every* element: inside the escaper the store is not skipped under any condition other than the loop's own
    skipped = None
    store_blocks = [(bi_, t_) for bi_, t_ in E.calls() if (callee_name(t_) or "").endswith("IndexMut<I>>::index_mut")] + deref_stores
    for bi_, t_ in store_blocks:
        gs_ = [g for g in guards.guards(E, bi_) if not g["loop"]]
        if gs_:
            skipped = (t_, [local.show(g["origin"])[:60] for g in gs_])
    if skipped:
        ctx.violation("ESC-2", (E.path, "entries skipped"), "the escaped string is stored back only under %s: the entries for which that does not hold are printed unescaped "
                      "(a stored string that merely looks already escaped, such as a literal backslash followed by one more character, keeps its raw backslash)" % skipped[1],
                      E.loc(skipped[0].get("line")))
    elif stores:
        ctx.ok("ESC-2", E.path + ":result stored per element", None, E.loc(stores[0].get("line")))
    else:
        ctx.violation("ESC-2", (E.path, "store"), "escaped strings are not written back element-wise", E.loc())
    # class context
    cls = [b for b in lib.bodies if b.kind == "fn" and any("std::collections::BTreeSet<char>" in t for t in b.sig_inputs)]
    need_cls = {"[", "]", "\\", "^", "-"}
    esc_closures = set()
    for fb in cls:
        for clo in [c for c in lib.bodies if c.kind == "closure" and c.parent == fb.path]:
            if not any((callee_name(t) or "") == "core::slice::<impl [T]>::contains" for _, t in clo.calls()):
                continue
            esc_closures.add(clo.path)
            ups = common.upvar_origins(lib, clo)
            arr = None
            for u in ups or []:
                u = local.peel(u)
                if u[0] == "agg" and u[1] == "array":
                    arr = [local.const_value(local.peel(x)) for x in u[3]]
                elif isinstance(local.const_value(u), list):
                    arr = local.const_value(u)
            if arr is None:
                ctx.undecided("ESC-1", clo.path, "class escape set is not a constant array", clo.loc())
                continue
            env = ccp.Agg("closure", clo.path, None, [ccp.Ref(ccp.Cell(ccp.Agg("array", None, None, [ccp.CharV(c) for c in arr])))])
            m = ccp.Machine([lib])
            for c in sorted(need_cls):
                leaves = m.run(clo, [ccp.Ref(ccp.Cell(env)), ccp.Ref(ccp.Cell(ccp.CharV(c)))])
                vals = {l.value.text() if isinstance(l.value, ccp.Tmpl) and l.value.is_const() else ccp.show(l.value) for l in leaves if l.kind == "return"}
                if vals == {"\\" + c}:
                    ctx.ok("ESC-1", "%s:class member %r" % (clo.path, c), {"rendered": "\\" + c}, clo.loc())
                else:
                    ctx.violation("ESC-1", (clo.path, "class " + repr(c)), "inside a bracket class %r is rendered as %s, expected a backslash escape" % (c, sorted(vals)), clo.loc())


def class_member_renderer(lib):
    """-> f(c) = set of strings the bracket-class printer renders member `c` as (through its escape closure), or None when the closure / its escape set is not found."""
    cls = [b for b in lib.bodies if b.kind == "fn" and any("std::collections::BTreeSet<char>" in t for t in b.sig_inputs)]
    found = []
    for fb in cls:
        for clo in [c for c in lib.bodies if c.kind == "closure" and c.parent == fb.path]:
            if not any((callee_name(t) or "") == "core::slice::<impl [T]>::contains" for _, t in clo.calls()):
                continue
            ups = common.upvar_origins(lib, clo)
            arr = None
            for u in ups or []:
                u = local.peel(u)
                if u[0] == "agg" and u[1] == "array":
                    arr = [local.const_value(local.peel(x)) for x in u[3]]
                elif isinstance(local.const_value(u), list):
                    arr = local.const_value(u)
            if arr is not None:
                found.append((clo, arr))
    if not found:
        # a named escaper `fn(char) -> String` called by the class printer
        fns = []
        for fb in cls:
            for _, t in fb.calls():
                cb = lib.body(callee_name(t) or "")
                if cb is not None and cb.kind == "fn" and cb.sig_inputs in (["char"], ["&char"]) and cb.sig_output == "std::string::String" and cb not in fns:
                    fns.append(cb)
        if len(fns) != 1:
            return None
        eb = fns[0]
        by_ref = eb.sig_inputs == ["&char"]
        m = ccp.Machine([lib])

        def g(c):
            try:
                leaves = m.run(eb, [ccp.Ref(ccp.Cell(ccp.CharV(c))) if by_ref else ccp.CharV(c)])
            except Exception:
                return None
            out = set()
            for l in leaves:
                if l.kind != "return":
                    continue
                v = l.value if isinstance(l.value, ccp.Tmpl) else ccp.to_tmpl(l.value)
                if isinstance(v, ccp.Tmpl) and v.is_const():
                    out.add(v.text())
                elif isinstance(v, ccp.Tmpl) and len(v.parts) == 1 and isinstance(v.parts[0], ccp.Hole) and isinstance(ccp.strip_ref(v.parts[0].v), ccp.CharV):
                    out.add(ccp.strip_ref(v.parts[0].v).c)
                else:
                    return None
            return out or None
        g.closure = eb
        return g
    if len(found) != 1:
        return None
    clo, arr = found[0]
    env = ccp.Agg("closure", clo.path, None, [ccp.Ref(ccp.Cell(ccp.Agg("array", None, None, [ccp.CharV(c) for c in arr])))])
    m = ccp.Machine([lib])

    def f(c):
        try:
            leaves = m.run(clo, [ccp.Ref(ccp.Cell(env)), ccp.Ref(ccp.Cell(ccp.CharV(c)))])
        except Exception:
            return None
        out = set()
        for l in leaves:
            if l.kind != "return":
                continue
            v = l.value if isinstance(l.value, ccp.Tmpl) else ccp.to_tmpl(l.value)
            if isinstance(v, ccp.Tmpl) and v.is_const():
                out.add(v.text())
            elif isinstance(v, ccp.Tmpl) and len(v.parts) == 1 and isinstance(v.parts[0], ccp.Hole) and isinstance(ccp.strip_ref(v.parts[0].v), ccp.CharV):
                out.add(ccp.strip_ref(v.parts[0].v).c)
            else:
                return None
        return out or None
    f.closure = clo
    return f


def esc3(ctx, lib):
    """ESC-3: escaping reaches every nesting level the printer prints."""
    from sa import callgraph
    G = "grapheme::Grapheme"
    printer = None
    for b in lib.bodies:
        if b.impl_trait == "std::fmt::Display" and b.impl_self == G and b.path.endswith("::fmt"):
            printer = b
    entries = find_escape_entry(lib)
    if printer is None or len(entries) != 1:
        ctx.anchor_lost("ESC-3", "Grapheme printer / escape entry")
        return
    E = entries[0]
    cg = callgraph.CallGraph(lib)
    # does the printer print nested graphemes (recursion through Display of Grapheme)?
    recursive_print = False
    for p_ in [printer] + [c for c in lib.bodies if c.kind == "closure" and c.parent == printer.path]:
        for _, t in p_.calls():
            n = callee_name(t) or ""
            targs = " ".join(t["callee"].get("res_args") or t["callee"].get("args") or [])
            if (n.endswith("ToString>::to_string") and G in targs) or n == printer.path:
                recursive_print = True
    if not recursive_print:
        ctx.ok("ESC-3", printer.path + ":printer is not recursive", None, printer.loc())
        return
    # escaping must then be recursive too: the escape entry (or the function applying it) lies on a call-graph cycle
    def on_cycle(path):
        for callee in cg.edges.get(path, ()):
            if path in cg.reachable([callee]):
                return True
        return False
    appliers = {b.path for b, _, _ in guards.call_sites(lib, E.path)}
    appliers |= {lib.body(a).parent for a in list(appliers) if lib.body(a) is not None and lib.body(a).kind == "closure" and lib.body(a).parent}
    if on_cycle(E.path) or any(on_cycle(a) for a in appliers if a):
        # the descent happens on every path: a direct recursive call is guarded by nothing but its own loop, and that loop is reached from every entry
        fiE = guards.FnInfo.of(E)
        rec = [(bi, t) for bi, t in E.calls() if callee_name(t) == E.path]
        bad = None
        for bi, t in rec:
            gs = [g for g in guards.guards(E, bi) if not g["loop"] and fiE.cfg.dominates(g["block"], bi)]
            loops = [h for h, body in fiE.cfg.natural_loops().items() if bi in body]
            hdr = min(loops) if loops else bi
            if gs:
                bad = "the recursive call is additionally guarded by %s" % [local.show(g["origin"])[:50] for g in gs]
            elif not fiE.cfg.postdominates(hdr, 0):
                bad = "a path returns before the loop over the nested repetitions is reached (early return)"
        if bad:
            ctx.violation("ESC-3", (E.path, "conditional descent"), "escaping descends into nested repetitions only on some paths: %s; on the others the printer still prints every "
                          "level, so metacharacters three levels down are printed raw (pattern rejected by the regex crate)" % bad, E.loc())
            return
        ctx.ok("ESC-3", E.path + ":escaping recurses into nested repetitions", None, E.loc())
    else:
        ctx.violation("ESC-3", (E.path, "nested repetitions"),
                      "the printer descends into nested repetitions at any depth (Display of Grapheme is recursive), but escaping is applied to the grapheme "
                      "and one level of its repetitions only: metacharacters and non-ASCII characters two levels down are printed raw "
                      "(grex -r '..b..bc..b..bc' -> ^(?:(?:.{2}b){2}c){2}$)", E.loc())


def pbody_switch_values(g):
    """all case values of the switch a guard edge belongs to (as recorded by the guard), or []"""
    return g.get("all_values") or []


def esc4(ctx, lib):
    """ESC-4: the printer prints a grapheme's own text only where that text was escaped.  The function applying the escaper to a whole grapheme either does so
    unconditionally, or only when the grapheme has no nested repetitions (the nested ones are escaped instead); in the latter case every use of the own text
    in the printer must be dominated by the same emptiness test - a second way into that branch (`is_empty() || ..`) prints raw, unescaped text."""
    G = "grapheme::Grapheme"
    printer = None
    for b in lib.bodies:
        if b.impl_trait == "std::fmt::Display" and b.impl_self == G and b.path.endswith("::fmt"):
            printer = b
    entries = find_escape_entry(lib)
    adt = lib.adts.get(G)
    if printer is None or len(entries) != 1 or not adt:
        ctx.anchor_lost("ESC-4", "Grapheme printer / escape entry")
        return
    E = entries[0]
    nested = [f["name"] for f in adt["variants"][0]["fields"] if "Vec<grapheme::Grapheme>" in norm(f["ty"])]
    if len(nested) != 1:
        ctx.anchor_lost("ESC-4", "the field of Grapheme holding nested repetitions")
        return
    nested = nested[0]
    # predicates (&Grapheme) -> bool that are the (negated) emptiness test of the nested list
    helper_truth = {}
    for hb in lib.bodies:
        if hb.kind == "assoc_fn" and hb.sig_inputs == ["&" + G] and hb.sig_output == "bool" and not hb.derived:
            r = local.peel(local.Defs(hb).local(0))
            neg = False
            if r[0] == "unop" and r[1] == "Not":
                neg, r = True, local.peel(r[2])
            if r[0] == "call" and r[1].endswith("::is_empty") and r[2]:
                a = local.peel(r[2][0])
                if a[0] == "field" and a[1] == nested:
                    helper_truth[hb.path] = not neg      # truth value of the helper when the nested list is empty

    def emptiness(g, subject):
        """True if this guard edge says 'the nested list of `subject` is empty', False if it says 'not empty', None otherwise"""
        t = guards.edge_truth(g)
        if t is None:
            # `match list.len() { 0 => .., _ => .. }`
            o = local.peel(g["origin"])
            if o[0] == "call" and o[1].endswith("::len") and o[2]:
                a = local.peel(o[2][0])
                if a[0] == "field" and a[1] == nested and subject(local.peel(a[2])):
                    if g["values"] == [0]:
                        return True
                    if g["values"] == ["otherwise"]:
                        others = [x for x in pbody_switch_values(g) if x != "otherwise"]
                        return False if others == [0] else None
            return None
        o = local.peel(g["origin"])
        neg = False
        if o[0] == "unop" and o[1] == "Not":
            neg, o = True, local.peel(o[2])
        if o[0] != "call" or not o[2]:
            return None
        a = local.peel(o[2][0])
        if o[1].endswith("::is_empty") and a[0] == "field" and a[1] == nested and subject(local.peel(a[2])):
            return t != neg
        if o[1] in helper_truth and subject(a):
            return (t != neg) == helper_truth[o[1]]
        return None

    # (1) the appliers: calls of the escape entry on a whole grapheme outside the entry itself
    cover = []
    for cb, bi, t in guards.call_sites(lib, E.path):
        if cb.path == E.path:
            continue
        fi = guards.FnInfo.of(cb)
        recv = local.peel(fi.defs.operand(t["args"][0]))
        def from_nested(x):
            if x[0] == "field" and x[1] == nested:
                return True
            xb = lib.body(x[1]) if x[0] == "call" else None
            return xb is not None and xb.sig_output is not None and "Vec<grapheme::Grapheme>" in xb.sig_output and xb.sig_inputs in (["&mut " + G], ["&" + G])
        if any(from_nested(x) for x in local.walk(recv)):
            continue        # an item of the nested repetitions: not the whole grapheme
        if cb.kind == "closure" and recv[0] == "param":
            # a closure applied to each item of some list: which list?
            site = common.closure_site(lib, cb)
            if site is not None:
                parent, pdefs, _ = site
                applied_to_nested = False
                for bj, t2 in parent.calls():
                    ops = [pdefs.operand(a) for a in t2["args"]]
                    if any(local.peel(o2)[0] == "agg" and local.peel(o2)[1] == "closure" and local.peel(o2)[2] == cb.path for o2 in ops[1:]) \
                            and any(from_nested(x) for x in local.walk(ops[0])):
                        applied_to_nested = True
                if applied_to_nested:
                    continue
        is_subject = lambda a, recv=recv: a == recv or (a[0] in ("param", "upvar") and recv[0] in ("param", "upvar") and a[:2] == recv[:2])
        # the conditions this call is nested in: immediate control dependences, followed upwards (transitive dependences through a loop's back edge would
        # add the guards of *other* iterations)
        gs, seen_blocks, work = [], set(), [bi]
        while work:
            blk = work.pop()
            if blk in seen_blocks:
                continue
            seen_blocks.add(blk)
            for g in guards.guards(cb, blk, transitive=False):
                if g["loop"]:
                    continue
                if not any(g["block"] == h["block"] and g["succ"] == h["succ"] for h in gs):
                    gs.append(g)
                work.append(g["block"])
        kinds = [(emptiness(g, is_subject), g) for g in gs]
        if not gs:
            cover.append(("always", cb, bi, t))
        elif all(k is True for k, _ in kinds) and all(fi.cfg.edge_dominates(g["block"], g["succ"], bi) for _, g in kinds):
            cover.append(("when-empty", cb, bi, t))
        else:
            cover.append(("other", cb, bi, t))
    if not cover:
        # applied to items only (e.g. `for_each(|g| g.escape(..))` over all graphemes)
        ctx.undecided("ESC-4", E.path, "no application of the escape entry to a whole grapheme was recognised", E.loc())
        return
    if any(k == "other" for k, *_ in cover):
        k, cb, bi, t = [c for c in cover if c[0] == "other"][0]
        ctx.undecided("ESC-4", cb.path, "the escape entry is applied to a grapheme under a condition that is not the emptiness test of its nested repetitions", cb.loc(t.get("line")))
        return
    if all(k == "always" for k, *_ in cover):
        ctx.ok("ESC-4", "%s:own text always escaped" % E.path, {"appliers": sorted({c[1].path for c in cover})}, E.loc())
        return
    # (2) the printer: own text only under the emptiness test
    n = 0
    for pb in [printer] + [c for c in lib.bodies if c.kind == "closure" and c.parent == printer.path]:
        fi = guards.FnInfo.of(pb)
        for bi, t in pb.calls():
            cb = lib.body(callee_name(t) or "")
            if cb is None or cb.derived or cb.sig_inputs != ["&" + G] or cb.sig_output != "std::string::String":
                continue
            recv = local.peel(fi.defs.operand(t["args"][0]))
            if not (recv[0] == "param" and recv[1] == 1 and pb is printer):
                continue
            n += 1
            is_self = lambda a: a[0] == "param" and a[1] == 1
            dom = [g for g in guards.guards(pb, bi) if emptiness(g, is_self) is True and fi.cfg.edge_dominates(g["block"], g["succ"], bi)]
            mentions = [g for g in guards.guards(pb, bi) if emptiness(g, is_self) is None and fi.cfg.edge_dominates(g["block"], g["succ"], bi)
                        and any((x[0] == "field" and x[1] == nested) or (x[0] == "call" and x[1] in helper_truth) for x in local.walk(g["origin"]))]
            if dom:
                ctx.ok("ESC-4", "%s:own text under the emptiness test of the nested repetitions" % pb.path, {"accessor": cb.path}, pb.loc(t.get("line")))
            elif mentions:
                ctx.undecided("ESC-4", pb.path, "the own text is used under a test on the nested repetitions that is not recognised as the emptiness test: %s"
                              % local.show(mentions[0]["origin"])[:100], pb.loc(t.get("line")))
            else:
                ctx.violation("ESC-4", (pb.path, "own text of a grapheme with nested repetitions"),
                              "the printer can print a grapheme's own text (%s) although its nested repetitions are not empty, but for such a grapheme only the nested "
                              "repetitions were escaped (%s): metacharacters of the unit reach the pattern raw (e.g. `(hoho. ){2}` for `hoho. hoho. `)"
                              % (cb.path.split("::")[-1], ", ".join(sorted({c[1].path for c in cover if c[0] == "when-empty"}))), pb.loc(t.get("line")))
    ctx.floor("ESC-4", "uses of a grapheme's own text in its printer", n, 1)


def class_escape_closures(lib):
    out = set()
    for fb in [b for b in lib.bodies if b.kind == "fn" and any("std::collections::BTreeSet<char>" in t for t in b.sig_inputs)]:
        for clo in [c for c in lib.bodies if c.kind == "closure" and c.parent == fb.path]:
            if any((callee_name(t) or "") == "core::slice::<impl [T]>::contains" for _, t in clo.calls()):
                out.add(clo.path)
    return out


def chars_compared_in_loop(hb):
    out = set()
    fi = guards.FnInfo.of(hb)
    loops = fi.cfg.natural_loops()
    inloop = set().union(*loops.values()) if loops else set()
    iterates_chars = any("std::str::Chars" in norm(t["args"][0]["place"]["ty"]) for _, t in hb.calls()
                         if (callee_name(t) or "").endswith("::next") and t["args"] and "place" in t["args"][0])
    if not iterates_chars:
        return out
    for bi, blk in hb.iter_blocks():
        if bi not in inloop:
            continue
        for s in blk["stmts"]:
            if s["k"] == "assign" and s["rv"]["k"] == "binop" and s["rv"]["op"] in ("Eq", "Ne"):
                for side in (s["rv"]["a"], s["rv"]["b"]):
                    c = side.get("c") if side.get("k") == "const" else None
                    if c and c.get("t") == "char":
                        out.add(chr(c["v"]))
        t = blk.get("term")
        if t and t["k"] == "switch" and t.get("discr_ty") == "char":
            for v, _ in t["arms"]:
                out.add(chr(v))
    return out


def run(ctx):
    ctx.rule("FIN-1", "the automaton rebuilt after minimisation gets its final states per state (an insert not nested in a loop over graph edges, or a map of the old set)")
    ctx.rule("FIN-2", "inserting a test case marks its last state final on every path, and the loop over test cases calls the insertion in every iteration")
    ctx.rule("ESC-1", "every character of regex_syntax::is_meta_character (version per lock file) is escaped in literals by the constant table or a per-occurrence "
                      "mechanism, except '#' (verbose only, C06) and '&','~' (special only doubled inside classes); inside bracket classes [ ] \\ ^ - are escaped")
    ctx.rule("RAW-1", "in the bracket-class printer no member is formatted as a raw char outside the class escaper (range end points included)")
    ctx.rule("ESC-3", "if the grapheme printer is recursive over nested repetitions, the application of the escaper is recursive as well (call-graph cycle)")
    ctx.rule("ESC-4", "the printer prints a grapheme's own text only where it was escaped: under the same emptiness test of the nested repetitions that the escaping dispatch uses")
    ctx.rule("ESC-2", "escaping is per occurrence (str::replace / char loop), applied to and stored back for every stored string of a grapheme")
    ctx.assume("minimisation, state elimination and printing preserve membership of the test cases (not decided: see C16)")
    prog = common.view(ctx, "default")
    lib = prog.lib
    fin(ctx, lib)
    esc(ctx, prog, lib)
    esc3(ctx, lib)
    esc4(ctx, lib)
    # TAB-1/2, CLS-1 (shared with C09/C03): a class token is substituted for a code point only if the engine's class of that name contains it
    from . import C09 as _c09
    _c09.run(ctx)
    # VWS-1/2 (shared with C06): under (?x) every ignored character is rewritten to an escape of exactly itself, in literals and in bracket classes
    from .C06 import vws
    ctx.rule("VWS-1", "on every verbose path each character the engine ignores under (?x) (White_Space, '#') is rewritten, in literals and as a bracket-class member")
    ctx.rule("VWS-2", "each such rewrite denotes exactly the character it replaces")
    vws(ctx, prog, lib, common.role_fields(ctx, lib, want=common.FMT_ROLES), with_cas=False)
    # LBL-3 (shared with C05): the trie lookup reuses an edge only under equal repetition maxima
    from .C05 import lbl3
    ctx.rule("LBL-3", "the trie lookup reuses an existing edge unchanged only under a dominating equality of the two labels' repetition maxima")
    lbl3(ctx, lib)
    # HIS-2 (shared with C10): build() does not consume or alter the builder's test cases, so every build() answers for the same set
    from .C10 import his2
    ctx.rule("HIS-2", "build() leaves the builder's state as it found it up to the idempotent canonicalisation of the test-case vector")
    his2(ctx, lib)
    # ESCP-2 (b), shared with C11: the literal printer applies the escaper on every path before it prints a grapheme
    from .C11 import literal_printer_escapes
    _fee = find_escape_entry
    ctx.rule("ESCP-2", "every literal is escaped before printing: the literal printer calls the symbol escaper on the grapheme or on each of its repetitions on every path")
    _hits = _fee(lib)
    if len(_hits) == 1:
        literal_printer_escapes(ctx, lib, _hits[0])
    else:
        ctx.anchor_lost("ESCP-2", "symbol escaper")
    from . import classprinter
    classprinter.raw1(ctx, lib, class_escape_closures(lib))
    # TRI-1 (shared with C05): a trie edge that earlier test cases traverse is never rewritten.  A widened edge (v,min,max) stands for the counts min..max, but the
    # minimiser tells labels apart by min or max only, so an inner count can be merged away (test case no longer matched).
    from .C05 import tri1, lbl1, lbl2
    ctx.rule("LBL-2", "label identity in the automaton code is decided on the labels' entries (chars()), never on their joined text (value())")
    lbl2(ctx, lib)
    ctx.rule("TRI-1", "no petgraph edge/node mutation other than add_node/add_edge is reachable from the trie insertion")
    ctx.rule("LBL-1", "predecessor states are collected under equality of the labels' values and agreement of their minimum or maximum (dominating true edge)")
    lbl1(ctx, lib, tri1(ctx, lib))
    from . import counting, minimise
    minimise.rules(ctx)
    minimise.check(ctx, lib)
    from . import substring
    substring.rules(ctx)
    substring.check(ctx, lib)
    counting.rules(ctx)
    counting.cnt1(ctx, lib)
    counting.cnt2(ctx, lib)
    counting.chr1(ctx, lib)
    counting.fch1(ctx, lib)
    counting.scp1(ctx, lib)
    # the union's necessary conditions (shared with C02): each of them, when broken, loses a test case
    from .C02 import uni, uni4
    ctx.rule("UNI-1", "two alternatives are merged into a character class only under dominating single-code-point guards on both")
    ctx.rule("UNI-2", "`x?` is built from the alternative that is not the one known to be empty")
    ctx.rule("UNI-3", "a removed common prefix is re-attached in front and a removed common suffix behind the factored rest")
    uni(ctx, lib)
    ctx.rule("UNI-4", "a path of the union that returns only one alternative knows the other is absent, equal, or (class tokens) included in it per a table verified against the Unicode tables")
    uni4(ctx, prog, lib)
