"""C10 — build() is a deterministic function of (set of test cases, settings)."""
import re

from sa import callgraph, ccp, guards, local, ordertaint
from sa.facts import callee_name, norm
from . import common

BUILD = common.BUILDER + "::build"

ND_CALLEE = re.compile(
    r"^(?:<)?(?:std|core)::(?:time|env|thread|process|fs|net|os|io::stdin|io::stdio)::|"
    r"^rand(?:_core|om)?::|RandomState(?:::new| as std::default::Default)|DefaultHasher|BuildHasher>::hash_one|"
    r"std::ptr::(?:from_ref|addr_of)|::as_ptr$|core::fmt::rt::Argument::new_pointer|std::alloc::")


def ord1(ctx, lib, reach):
    rid = "ORD-1"
    nsrc = 0
    for b in lib.bodies:
        if b.path not in reach:
            continue
        sites = ordertaint.scan(b)
        for s in sites:
            where = "%s:%s" % (b.path, s.callee)
            at = b.loc(s.line)
            if s.role == "source":
                nsrc += 1
                ctx.ok(rid, where + ":source", {"type": s.detail}, at)
            elif s.role in ("adapter", "terminal_ok", "loop_ok"):
                ctx.ok(rid, where, {"consumer": s.role, "detail": s.detail}, at)
            elif s.role == "tie-sensitive":
                ok, why = tie_exception(lib, b, s)
                if ok:
                    ctx.ok(rid, where, {"consumer": "tie-sensitive sort neutralised by regrouping", "reason": why}, at)
                else:
                    ctx.violation(rid, (b.path, s.callee), "%s over a hash-ordered iterator: elements with equal keys keep hash order (%s)"
                                  % (s.detail, why), at)
            elif s.role == "loop-order-sensitive":
                for kind, msg, line in s.detail:
                    ctx.violation(rid, (b.path, "loop over " + s.callee, kind), msg, b.loc(line))
            elif s.role == "next-outside-loop":
                ctx.violation(rid, (b.path, s.callee), "%s: the result depends on the per-process hash seed" % s.detail, at)
            else:
                ctx.violation(rid, (b.path, s.callee), "order-sensitive consumer (%s: %s) of a hash-ordered iterator" % (s.role, s.detail), at)
        # Debug formatting of unordered collections
        for bi, t in b.calls():
            n = callee_name(t) or ""
            if re.match(r"^<std::collections::Hash(?:Set|Map)<.*> as std::fmt::Debug>::fmt$", n):
                ctx.violation(rid, (b.path, n), "Debug-formats a hash collection: output order depends on the hash seed", b.loc(t.get("line")))
    # consistency of the two recognisers: calls that by *name* create a hash iterator must have been recognised by *type*
    by_name = 0
    for b in lib.bodies:
        if b.path not in reach:
            continue
        for bi, t in b.calls():
            n = callee_name(t) or ""
            if re.search(r"std::collections::Hash(?:Set|Map)::<.*>::(?:iter|iter_mut|into_iter|keys|values|drain|intersection|difference|union|symmetric_difference)$", n) \
                    or re.search(r"^<&(?:mut )?std::collections::Hash(?:Set|Map)<.*> as std::iter::IntoIterator>::into_iter$", n):
                by_name += 1
    ctx.extra["hash_iterator_sources"] = {"by_type": nsrc, "by_callee_name": by_name}
    if by_name > nsrc:
        ctx.anchor_lost(rid, "type-based recognition of hash iterators (%d creation calls by name, %d recognised by type)" % (by_name, nsrc))


def tie_exception(lib, body, site):
    """The one audited shape: items sorted by key K1, regrouped by the same key (chunk_by K1), and each group
    re-sorted by a key that is injective within a group.  Reason (frozen, one line): in the map substring -> occurrence
    indices, two distinct substrings of equal length cannot have the same first occurrence index."""
    d = local.Defs(body)

    def key_of(term, argi):
        o = d.operand(term["args"][argi])
        if o[0] == "agg" and o[1] == "closure":
            cb = lib.body(o[2])
            if cb is not None:
                return local.show(local.Defs(cb).local(0))
        return None

    k1 = key_of(site.term, 1)
    if k1 is None:
        return False, "key closure not found"
    chain = [site.block]
    regroup = None
    inner = None
    for bi, t in body.calls():
        seg = ordertaint.last_seg(norm(t["callee"].get("decl") or ""))
        if not t["args"]:
            continue
        o = d.operand(t["args"][0])
        dep = any(x[0] == "call" and x[3] in chain for x in local.walk(o))
        if not dep:
            continue
        if seg in ("rev", "into_iter", "next", "by_ref"):
            chain.append(bi)
        elif seg == "chunk_by":
            if key_of(t, 1) == k1:
                regroup = bi
                chain.append(bi)
        elif seg == "sorted_by_key" and regroup is not None:
            inner = key_of(t, 1)
    if regroup is None:
        return False, "no regrouping by the same key %s" % k1
    if inner is None:
        return False, "groups are not re-sorted"
    # K3 must be the first element of the item's second component (the occurrence index list)
    if not re.match(r"^\*?.*Index.*::index\(\*?\(?\*?arg2\)?\.1, 0\)$", inner.replace(" ", " ")):
        if "index(" not in inner or not inner.rstrip(")").endswith(", 0"):
            return False, "inner key is %s, not the first occurrence index" % inner
    return True, "sorted by %s, chunked by the same key, groups re-sorted by %s (first occurrence index: injective within a group)" % (k1, inner)


def nd(ctx, lib, bin_, reach):
    # ND-2: ambient nondeterminism sources reachable from build
    n = 0
    for b in lib.bodies:
        if b.path not in reach:
            continue
        for bi, t in b.calls(cleanup=True):
            n += 1
            name = callee_name(t) or ""
            decl = norm(t["callee"].get("decl") or "")
            for nm in (name, decl):
                if ND_CALLEE.search(nm):
                    ctx.violation("ND-2", (b.path, nm), "call into an ambient source of nondeterminism reachable from build()", b.loc(t.get("line")))
                    break
        for bi, blk in b.iter_blocks(cleanup=True):
            for s in blk["stmts"]:
                if s["k"] == "assign" and s["rv"]["k"] == "cast" and "ExposeProvenance" in s["rv"]["kind"] and not s.get("macros"):
                    ctx.violation("ND-2", (b.path, "pointer-to-integer cast"), "address of an allocation observed as an integer", b.loc(s.get("line")))
    ctx.ok("ND-2", "calls reachable from build()", {"call_sites_scanned": n, "functions": len(reach)})
    # ND-3: statics
    lazy = 0
    for path, c in lib.consts.items():
        if c["kind"] != "static":
            continue
        if c.get("mutable"):
            ctx.violation("ND-3", (path, "static mut"), "mutable static in the library crate")
        elif c.get("thread_local"):
            ctx.violation("ND-3", (path, "thread_local"), "thread-local static in the library crate")
        elif not c.get("freeze", True):
            ty = norm(c["ty"])
            payload = ty[len("lazy_static::lazy::Lazy<"):-1] if ty.startswith("lazy_static::lazy::Lazy<") else None
            if payload is not None and re.search(r"\b(?:Mutex|RwLock|RefCell|Cell|UnsafeCell|OnceCell|OnceLock|LazyCell|LazyLock|Condvar|Atomic[A-Z]\w*|mpsc::\w+|ThreadLocal)\b", payload):
                ctx.violation("ND-3", (path, "mutable global"), "lazily initialised static whose payload can be mutated after initialisation (%s): whatever build() stores in it is "
                              "seen by every later build(), on every builder and thread, so the result depends on the call history of the process" % payload)
            elif payload is not None:
                lazy += 1
                ctx.ok("ND-3", path, {"kind": "lazy_static cell; its initialiser is part of the build()-reachable set and is scanned by ND-2/ORD-1"})
            else:
                ctx.violation("ND-3", (path, "interior mutability"), "static with interior mutability (%s)" % norm(c["ty"]))
        else:
            ctx.ok("ND-3", path, {"kind": "immutable Freeze static"})
    # initialisers of lazy statics must only read constants: no parameters, no statics other than their own cell
    for b in lib.bodies:
        if "__static_ref_initialize" in b.path:
            d = local.Defs(b)
            r = d.local(0)
            bad = [x for x in local.walk(r) if x[0] in ("static", "param", "upvar", "unknown", "multi")]
            if b.kind == "closure":
                # a closure inside an initialiser (`TABLE.iter().map(|&(lo, _)| ..)`): its parameters are the items of what the initialiser iterates, not an outside
                # input; only captured variables could carry one
                bad = [x for x in bad if x[0] != "param"]
            if bad:
                ctx.violation("ND-3", (b.path, "initialiser input"), "lazy static initialiser reads non-constant input: %s" % local.show(r), b.loc())
            else:
                ctx.ok("ND-3", b.path, {"initialiser": local.show(r)[:120]}, b.loc())
    # ND-4: user-written unsafe
    for cr in (lib, bin_):
        if cr is None:
            continue
        nun = 0
        for u in cr.unsafe:
            if u["what"] == "unsafe block" and not u.get("user"):
                nun += 1
                continue
            if u["what"] in ("unsafe impl",) and u.get("exp"):
                nun += 1
                continue
            ctx.violation("ND-4", (u["path"], u["what"]), "user-written %s in a workspace crate" % u["what"],
                          "%s:%s" % (u["span"]["file"], u["span"]["line"]))
        ctx.ok("ND-4", cr.name + "." + cr.crate_type, {"compiler_generated_unsafe_blocks_ignored": nun})


def can1(ctx, lib):
    rid = "CAN-1"
    VEC = "&mut std::vec::Vec<std::string::String>"
    takers = [b for b in lib.bodies if b.kind in ("fn", "assoc_fn") and not b.derived and VEC in b.sig_inputs]
    # canonicaliser: the taker that sorts and dedups its parameter
    canon = None
    for b in takers:
        segs = [ordertaint.last_seg(callee_name(t) or "") for _, t in b.calls()]
        if any(x in segs for x in ("sort", "sort_unstable", "sort_by", "sort_unstable_by", "sort_by_key", "dedup")) and b.arg_count == 1:
            canon = b
    if canon is None:
        ctx.anchor_lost(rid, "function taking only &mut Vec<String> that sorts / dedups it")
        return None
    fi = guards.FnInfo.of(canon)
    d = fi.defs
    calls = [(bi, t, ordertaint.last_seg(callee_name(t) or "")) for bi, t in canon.calls()]

    def on_param(t):
        o = local.peel(d.operand(t["args"][0]))
        while o[0] == "call" and o[1].endswith("deref_mut"):
            o = local.peel(o[2][0])
        return o == ("param", 1)

    sort_b = [bi for bi, t, s in calls if s in ("sort", "sort_unstable") and on_param(t)]
    dedup_b = [bi for bi, t, s in calls if s == "dedup" and on_param(t)]
    sortby = [(bi, t) for bi, t, s in calls if s in ("sort_by", "sort_unstable_by", "sort_by_key", "sort_by_cached_key") and on_param(t)]
    if not sort_b or not dedup_b:
        ctx.violation(rid, (canon.path, "sort+dedup"), "the test-case list is not both sorted and deduplicated in place", canon.loc())
        return canon
    if not any(fi.cfg.dominates(s, dd) for s in sort_b for dd in dedup_b):
        ctx.violation(rid, (canon.path, "dedup before sort"), "Vec::dedup only removes *adjacent* duplicates: it must be dominated by a sort of the same vector", canon.loc())
    else:
        ctx.ok(rid, canon.path + ":sort-dominates-dedup", None, canon.loc())
    # every dedup/sort must post-dominate entry (unconditional)
    for bi in sort_b[:1] + dedup_b[:1]:
        if not fi.cfg.postdominates(bi, 0):
            ctx.violation(rid, (canon.path, "conditional canonicalisation"), "sort/dedup is not executed on every path", canon.loc())
    # final ordering: comparator must be a total order on distinct strings
    if sortby:
        bi, t = sortby[-1]
        if not all(fi.cfg.dominates(dd, bi) for dd in dedup_b):
            ctx.violation(rid, (canon.path, "order of sort_by and dedup"), "the final sort must follow deduplication", canon.loc(t.get("line")))
        o = d.operand(t["args"][1])
        cmp_ok, why = False, "comparator closure not found"
        if o[0] == "agg" and o[1] == "closure" and lib.body(o[2]) is not None and ordertaint.last_seg(callee_name(t)) in ("sort_by", "sort_unstable_by"):
            cmp_ok, why = total_comparator(lib, lib.body(o[2]))
        if cmp_ok:
            ctx.ok(rid, canon.path + ":comparator", {"why": why}, canon.loc(t.get("line")))
        else:
            ctx.violation(rid, (canon.path, "comparator"), "final sort comparator is not a total order on distinct strings: %s" % why, canon.loc(t.get("line")))
    # position in the pipeline: canon dominates every other consumer of the list in its caller
    sites = guards.call_sites(lib, canon.path)
    if not ctx.floor(rid, "call sites of the canonicaliser", len(sites), 1):
        return canon
    for body, blk, term in sites:
        fi2 = guards.FnInfo.of(body)
        if not fi2.cfg.postdominates(blk, 0):
            ctx.violation(rid, (body.path, "conditional call of " + canon.path), "canonicalisation is skipped on some path", body.loc(term.get("line")))
        tgt = local.peel(fi2.defs.operand(term["args"][0]))
        # later calls that can reorder the same vector (&mut Vec<String> parameter) must not exist
        for bi, t in body.calls():
            if bi == blk:
                continue
            tys = ordertaint.arg_types(t)
            for i, ty in enumerate(tys):
                if ty == VEC and local.peel(fi2.defs.operand(t["args"][i])) == tgt:
                    if bi in fi2.cfg.reachable_from(blk) and bi != blk:
                        ctx.violation(rid, (body.path, callee_name(t)), "the test-case list is handed out mutably after canonicalisation", body.loc(t.get("line")))
                    else:
                        ctx.ok(rid, "%s:%s before canonicalisation" % (body.path, callee_name(t)), None, body.loc(t.get("line")))
            # consumers by shared reference must come after canon
            for i, a in enumerate(t["args"]):
                o = fi2.defs.operand(a)
                if any(x == tgt for x in local.walk(o)) and callee_name(t) in lib.by_path and tys[i] != VEC:
                    if not fi2.cfg.dominates(blk, bi):
                        ctx.violation(rid, (body.path, callee_name(t)), "the test cases are consumed before they are canonicalised", body.loc(t.get("line")))
        ctx.ok(rid, "%s:calls %s unconditionally" % (body.path, canon.path), None, body.loc(term.get("line")))
    return canon


def total_comparator(lib, cb):
    """closure |a, b|: every leaf returns either a comparison that is the leaf's only tie-breaker, and on the leaf where the first
    comparison is Equal the result is a content comparison of the two parameters themselves."""
    a, b = ccp.Sym("a"), ccp.Sym("b")
    leaves = ccp.Machine([lib]).run(cb, [ccp.Sym("env"), a, b])
    if any(l.kind != "return" for l in leaves):
        return False, "non-returning path"
    # lexicographic chaining: first.then(a.cmp(b)) / first.then_with(|| a.cmp(b)) is a total order on distinct strings whatever `first` is
    if len(leaves) == 1 and isinstance(leaves[0].value, ccp.Call) and re.search(r"cmp::Ordering::then(?:_with)?$", leaves[0].value.callee) and len(leaves[0].value.args) == 2:
        second = ccp.strip_ref(leaves[0].value.args[1])
        if isinstance(second, ccp.Call) and second.callee.endswith("::cmp") and {ccp.strip_ref(x).key() for x in second.args} == {a.key(), b.key()}:
            return True, "first.then(String::cmp(a, b))"
        if isinstance(second, ccp.Agg) and second.kind == "closure" and lib.body(second.label) is not None:
            caps = {ccp.strip_ref(x).key() for x in second.fields}
            r = local.peel(local.Defs(lib.body(second.label)).local(0))
            ups = {x[1] for x in local.walk(r) if x[0] == "upvar"}
            if r[0] == "call" and r[1].endswith("::cmp") and caps == {a.key(), b.key()} and len(ups) == 2:
                return True, "first.then_with(|| String::cmp(a, b))"
    full = None
    for l in leaves:
        v = l.value
        if isinstance(v, ccp.Call) and v.callee.endswith("::cmp") and {x.key() for x in v.args} == {a.key(), b.key()}:
            full = l
    if full is None:
        return False, "no path compares the two strings themselves (ties between equal-length distinct strings stay in input order)"
    # on every other leaf the returned ordering must be known to be != Equal (fact excludes 0) or be the full comparison
    for l in leaves:
        if l is full:
            continue
        v = l.value
        if isinstance(v, ccp.Call) and v.callee.endswith("::cmp"):
            k = ccp.Discr(v).key()
            fact = l.facts.get(k)
            excl = None
            for (atom, val) in l.label:
                if atom == ccp.show(ccp.Discr(v)) and val.startswith("not in"):
                    excl = val
            if fact is None and excl is None:
                return False, "a path returns %s without having excluded Equal" % ccp.show(v)
            if isinstance(fact, ccp.Const) and fact.v == 0:
                return False, "a path returns an ordering known to be Equal without comparing contents"
        else:
            return False, "a path returns %s" % ccp.show(v)
    return True, "length ordering unless Equal, then String::cmp(a, b)"


_STD_MUTATORS = re.compile(r"^(?:std|core|alloc)::mem::(?:take|replace|swap)$|Vec::<T, A>::(?:clear|drain|truncate|pop|remove|push|insert|retain|retain_mut|dedup|dedup_by|dedup_by_key|"
                           r"append|extend|split_off|swap_remove|resize|set_len)$|Option::<T>::(?:take|replace|insert|get_or_insert\w*)$|String::(?:clear|push|push_str|truncate|pop|remove|insert)$")


def his2(ctx, lib):
    """HIS-2: build() leaves the builder as it found it, up to canonicalisation.  The only mutable use of the builder's state in build() is handing the test-case
    vector to the entry function (which sorts and de-duplicates it: CAN-1, an idempotent canonicalisation); moving the vector out (mem::take), clearing it, or writing
    any field makes a second build() - or a clone taken afterwards - answer for a different builder."""
    rid = "HIS-2"
    b = lib.body(BUILD)
    if b is None:
        ctx.anchor_lost(rid, BUILD)
        return
    leaves = ccp.Machine([lib]).run(b)
    n = 0
    seen = set()
    for l in leaves:
        for e in l.events:
            if e["k"] == "write" and isinstance(e.get("target"), ccp.V):
                pth = common.fld_path(e["target"])
                if pth and pth[0] == "self" and ("write", pth) not in seen:
                    seen.add(("write", pth))
                    ctx.violation(rid, (b.path, "write " + ".".join(pth)), "build() writes the builder's field %s: a later build() or a clone taken afterwards no longer "
                                  "corresponds to the accumulated settings and test cases" % ".".join(pth), b.loc(e.get("line")))
            if e["k"] != "call":
                continue
            rooted = [common.fld_path(a) for a in (e.get("args") or []) if isinstance(a, ccp.V) and common.fld_path(a) and common.fld_path(a)[0] == "self"]
            if not rooted:
                continue
            callee = e["callee"]
            key = (callee, tuple(rooted))
            if key in seen:
                continue
            seen.add(key)
            cb = lib.body(callee)
            n += 1
            if cb is not None:
                muts = [i for i, t in enumerate(cb.sig_inputs) if t.startswith("&mut")]
                if not muts:
                    ctx.ok(rid, "%s:%s by shared reference" % (b.path, callee), None, b.loc(e.get("line")))
                elif cb.sig_output and cb.sig_output.startswith("regexp::RegExp"):
                    ctx.ok(rid, "%s:%s canonicalises the test cases in place" % (b.path, callee), {"see": "CAN-1"}, b.loc(e.get("line")))
                else:
                    ctx.undecided(rid, b.path, "build() hands %s to %s by mutable reference" % ([".".join(r) for r in rooted], callee), b.loc(e.get("line")))
            elif _STD_MUTATORS.search(callee):
                ctx.violation(rid, (b.path, callee.split("::")[-1] + " " + ".".join(rooted[0])), "build() changes the builder's own state with %s(%s): the test cases are gone (or altered) "
                              "after the first build(), so building again, or building a clone taken afterwards, returns a pattern for a different set of test cases"
                              % (callee, ".".join(rooted[0])), b.loc(e.get("line")))
            else:
                ctx.ok(rid, "%s:%s" % (b.path, callee), None, b.loc(e.get("line")))
    ctx.floor(rid, "uses of the builder's state in build()", n, 1)


def his1(ctx, lib, roles, canon, reach):
    rid = "HIS-1"
    b = lib.body(BUILD)
    if b is None:
        ctx.anchor_lost(rid, BUILD)
        return
    d = local.Defs(b)
    pipeline = None
    for bi, t in b.calls():
        n = callee_name(t)
        if n in lib.by_path and len(t["args"]) >= 2:
            tys = ordertaint.arg_types(t)
            cfg_args = [i for i, ty in enumerate(tys) if ty and common.CONFIG in ty]
            if cfg_args:
                pipeline = (bi, t, cfg_args)
    if pipeline is None:
        ctx.anchor_lost(rid, "call in build() that receives the settings")
        return
    bi, t, cfg_args = pipeline
    for i in cfg_args:
        ty = ordertaint.arg_types(t)[i]
        if ty.startswith("&mut"):
            ctx.violation(rid, (BUILD, "config passed mutably"), "build() hands the settings out mutably: a build could change later builds", b.loc(t.get("line")))
        else:
            ctx.ok(rid, BUILD + ":config by shared reference", {"type": ty}, b.loc(t.get("line")))
    adt = lib.adts.get(common.CONFIG)
    if adt is None:
        ctx.anchor_lost(rid, "ADT " + common.CONFIG)
    elif not adt.get("freeze"):
        ctx.violation(rid, (common.CONFIG, "interior mutability"), "settings type is not Freeze: a shared reference could still mutate it")
    else:
        ctx.ok(rid, common.CONFIG + ":Freeze", {"fields": len(adt["variants"][0]["fields"])})
    # who may write settings: only the public setters (and the constructor aggregate)
    api = common.spec("api")
    allowed = {common.BUILDER + "::" + s for s in api["setters"]}
    writers = {}
    for fb in lib.bodies:
        if fb.derived:
            continue
        for _, blk in fb.iter_blocks():
            for s in blk["stmts"]:
                if s["k"] != "assign":
                    continue
                for e in s["place"]["proj"]:
                    if e["k"] == "field" and norm(e.get("adt")) == common.CONFIG:
                        # a closure written inside a setter (e.g. passed to a private `configure` helper) belongs to that setter
                        owner = fb.parent if fb.kind == "closure" and fb.parent else fb.path
                        writers.setdefault(owner, set()).add(e["name"])
    for w, fields in sorted(writers.items()):
        if w in allowed:
            ctx.ok(rid, w + ":writes settings", {"fields": sorted(fields)})
        else:
            ctx.violation(rid, (w, "writes settings"), "settings field(s) %s written outside the public setters" % sorted(fields), lib.body(w).loc())
    ctx.floor(rid, "setter functions writing settings", len(writers), 16)
    # setters neither read settings nor branch on them; they write constants or their own parameter
    eff = common.setter_effects(lib)
    for name in api["setters"]:
        e = eff.get(name)
        if e is None:
            continue
        for l in e["leaves"]:
            for atom, val in l.label:
                if "config" in atom or "test_cases" in atom:
                    ctx.violation(rid, (common.BUILDER + "::" + name, "reads state"), "setter branches on builder state (%s): setters would not commute" % atom, e["body"].loc())
            for ev in l.events:
                if ev["k"] == "call" and not ev["callee"].startswith(("core::panicking", "std::rt::")):
                    ctx.violation(rid, (common.BUILDER + "::" + name, ev["callee"]), "setter calls %s" % ev["callee"], e["body"].loc())
            for path, val in common.leaf_writes(l):
                okv = (isinstance(val, ccp.Const) and val.v is True) or (isinstance(val, ccp.Sym) and not val.name.startswith("self"))
                if not okv:
                    ctx.violation(rid, (common.BUILDER + "::" + name, "value written"), "setter writes %s to %s" % (ccp.show(val), path), e["body"].loc())
        ctx.ok(rid, common.BUILDER + "::" + name + ":write-only", None, e["body"].loc())
    # in-place mutation of the test-case list
    VEC = "&mut std::vec::Vec<std::string::String>"
    takers = sorted(fb.path for fb in lib.bodies if fb.kind in ("fn", "assoc_fn") and not fb.derived and VEC in fb.sig_inputs and fb.path in reach)
    ctx.ok(rid, "functions receiving &mut Vec<String>", {"functions": takers})
    root = norm(t["callee"].get("res") or t["callee"]["decl"])
    rb = lib.body(root)
    for tk in takers:
        if tk == root or (canon is not None and tk == canon.path):
            continue
        for body, blk, term in guards.call_sites(lib, tk):
            gs = [g for g in guards.guards(body, blk) if not g["loop"]]
            okg = len(gs) == 1 and guards.edge_truth(gs[0]) is True and common.origin_config_field(gs[0]["origin"]) == roles.get("ignore_case")
            if okg:
                ctx.ok(rid, "%s:%s guarded by the (monotone) case-insensitivity setting" % (body.path, tk), None, body.loc(term.get("line")))
            else:
                ctx.violation(rid, (body.path, tk), "in-place rewrite of the test cases under a guard other than the case-insensitivity setting: %s"
                              % [local.show(g["origin"]) for g in gs], body.loc(term.get("line")))
    # Clone independence of the builder
    seen = set()

    def shared(tyname, depth=0):
        tyname = norm(tyname)
        if re.search(r"\b(?:Rc|Arc|Cell|RefCell|UnsafeCell|Mutex|RwLock|OnceCell|OnceLock)<|\*const|\*mut|&", tyname):
            return tyname
        for a in re.findall(r"[A-Za-z_][A-Za-z0-9_]*(?:::[A-Za-z_][A-Za-z0-9_]*)+", tyname):
            if a in lib.adts and a not in seen and depth < 6:
                seen.add(a)
                for v in lib.adts[a]["variants"]:
                    for f in v["fields"]:
                        r = shared(f["ty"], depth + 1)
                        if r:
                            return "%s.%s: %s" % (a, f["name"], r)
        return None

    r = shared(common.BUILDER)
    if r:
        ctx.violation(rid, (common.BUILDER, "shared state"), "builder contains shared or interior-mutable state (%s): clones are not independent" % r)
    else:
        ctx.ok(rid, common.BUILDER + ":plain data", {"adts": sorted(seen)})


def witnesses(ctx):
    import os
    import shutil
    import subprocess
    import tempfile
    from sa import views
    rid = "THR-1"
    src = os.path.join(common.VERIF, "witness")
    tmp = tempfile.mkdtemp(prefix="grexverif-witness-")
    try:
        wd = os.path.join(tmp, "w")
        shutil.copytree(src, wd, ignore=shutil.ignore_patterns("target"))
        shutil.copy(os.path.join(views.REPO, "Cargo.lock"), os.path.join(wd, "Cargo.lock"))
        env = dict(os.environ)
        env.update({"CARGO_TARGET_DIR": os.path.join(tmp, "target"), "CARGO_NET_OFFLINE": "true", "GREX_PATH": views.REPO})
        toml = open(os.path.join(wd, "Cargo.toml")).read().replace("@REPO@", views.REPO)
        open(os.path.join(wd, "Cargo.toml"), "w").write(toml)
        r = subprocess.run(["cargo", "+nightly", "test", "--doc", "--offline"], cwd=wd, env=env, capture_output=True, text=True)
        out = r.stdout + r.stderr
        m = re.search(r"test result: (\w+)\. (\d+) passed; (\d+) failed", out)
        if r.returncode == 0 and m and m.group(1) == "ok" and int(m.group(2)) >= 6:
            ctx.ok(rid, "witness crate", {"doctests_passed": int(m.group(2)), "kinds": "compile-pass twins + compile_fail witnesses"})
        else:
            failed = re.findall(r"^test (.*) \.\.\. FAILED", out, re.M)
            if failed:
                for f in failed:
                    ctx.violation(rid, ("witness", f.split(" - ")[-1].split(" (")[0]), "type-level witness failed: %s" % f)
            else:
                raise views.ViewError("witness crate did not build/run:\n" + out[-2500:])
    finally:
        shutil.rmtree(tmp, ignore_errors=True)


def run(ctx):
    ctx.rule("ORD-1", "every hash-ordered iterator (recognised by type) reaches only order-insensitive terminals, order-preserving adapters, "
                      "or drives a loop whose body is a commutative accumulation without early exit; sorting with possibly tied keys needs "
                      "the audited regrouping shape")
    ctx.rule("ND-2", "no call reachable from build() into time/env/thread/process/fs/net/rand/RandomState/DefaultHasher, no pointer-to-integer cast")
    ctx.rule("ND-3", "no static mut, no thread_local, no interior-mutable static other than lazy_static cells whose initialiser reads only constants")
    ctx.rule("ND-4", "no user-written unsafe in the workspace crates")
    ctx.rule("CAN-1", "the test-case list is sorted, then deduplicated, then sorted with a total-order comparator, unconditionally and before any consumer; "
                      "nothing receives it mutably afterwards")
    ctx.rule("HIS-2", "build() leaves the builder's state as it found it up to the idempotent canonicalisation of the test-case vector: no field write, no mem::take / clear / drain of a field")
    ctx.rule("HIS-1", "build() passes settings by shared reference to a Freeze type; only the public setters write settings; setters are write-only "
                      "(constant true or own parameter, no reads, no branches on state); the only in-place rewrite of test cases is guarded by the monotone "
                      "case-insensitivity setting; the builder is plain data (Clone = independent copy)")
    ctx.rule("THR-1", "(thorough) compile-pass/compile_fail witnesses: RegExpBuilder: Send+Sync+Clone; build() needs &mut self")
    ctx.assume("petgraph, ndarray, itertools, regex, unic-*, unicode-segmentation are deterministic functions of their inputs (no randomised hashing in the parts used)")
    ctx.assume("String::to_lowercase is idempotent (repeated build() with case-insensitivity re-lowercases the stored test cases)")
    prog = common.view(ctx, "default")
    lib, bin_ = prog.lib, prog.bin
    cg = callgraph.CallGraph(lib)
    reach = cg.reachable([BUILD])
    ctx.extra["functions_reachable_from_build"] = len(reach)
    if not ctx.floor("ORD-1", "functions reachable from build()", len(reach), 120):
        return
    roles = common.role_fields(ctx, lib)
    ord1(ctx, lib, reach)
    nd(ctx, lib, bin_, reach)
    canon = can1(ctx, lib)
    his1(ctx, lib, roles, canon, reach)
    his2(ctx, lib)
    from . import memo
    memo.rules(ctx)
    memo.check(ctx, lib, reach)
    if ctx.tier == "thorough":
        witnesses(ctx)
