"""C15 — syntax highlighting only adds colour (component-level renderer agreement, SGR syntax agreement, indenter)."""
import re

from sa import ccp, guards, local
from sa.facts import callee_name, norm
from . import common, fmtmodel, plumbing

SGR_ALPHABET = set("\x1b[0123456789;m")


def compatible(a, b):
    for k, v in a.facts.items():
        w = b.facts.get(k)
        if w is not None and isinstance(v, ccp.Const) and isinstance(w, ccp.Const) and v.v != w.v:
            return False
    # membership / exclusion facts on the discriminant
    for k, vals in a.member.items():
        w = b.facts.get(k)
        if isinstance(w, ccp.Const) and w.v not in vals:
            return False
    for k, vals in b.member.items():
        w = a.facts.get(k)
        if isinstance(w, ccp.Const) and w.v not in vals:
            return False
    for k, ex in a.excl.items():
        w = b.facts.get(k)
        if isinstance(w, ccp.Const) and w.v in ex:
            return False
    for k, ex in b.excl.items():
        w = a.facts.get(k)
        if isinstance(w, ccp.Const) and w.v in ex:
            return False
    return True


def tmpl_key(t, strip):
    parts = []
    for p in t.parts:
        if isinstance(p, str):
            parts.append(("s", p))
        else:
            parts.append(("h", p.key()))
    # merge adjacent strings after stripping
    out = []
    for kind, v in parts:
        if kind == "s":
            if out and out[-1][0] == "s":
                out[-1] = ("s", out[-1][1] + v)
            else:
                out.append(("s", v))
        else:
            out.append((kind, v))
    res = []
    for kind, v in out:
        if kind == "s":
            v2 = strip(v)
            if v2:
                if res and res[-1][0] == "s":
                    res[-1] = ("s", res[-1][1] + v2)
                else:
                    res.append(("s", v2))
        else:
            res.append((kind, v))
    return tuple(res)


def stripping_patterns(lib):
    """constant Regex::new patterns beginning with ESC: the repo's own definition of an SGR sequence.
    A pattern whose only uses are rewrites with a non-empty replacement is no stripper (it is judged by COL-5 instead)."""
    out = []
    for b in lib.bodies:
        d = None
        cands = []
        for bi, t in b.calls():
            if callee_name(t) == "regex::Regex::new":
                d = d or local.Defs(b)
                v = local.const_value(local.peel(d.operand(t["args"][0])))
                if isinstance(v, str) and v.startswith("\x1b"):
                    cands.append((t, v))
        if not cands:
            continue
        uses = {}
        for bi, t in b.calls():
            if callee_name(t) in ("regex::Regex::replace_all", "regex::Regex::replace", "regex::Regex::replacen") and len(t["args"]) >= 3:
                recv = d.operand(t["args"][0])
                rep = local.const_value(local.peel(d.operand(t["args"][-1])))
                for x in local.walk(recv):
                    if x[0] == "call" and x[1] == "regex::Regex::new":
                        pv = local.const_value(local.peel(x[2][0])) if x[2] else None
                        uses.setdefault(pv, []).append(rep)
        for t, v in cands:
            if v in uses and all(r != "" for r in uses[v]):
                continue
            out.append((b, t, v))
    return out


def col2(ctx, lib):
    comp = "component::Component"
    col = [b for b in lib.bodies if b.kind == "assoc_fn" and b.sig_inputs == ["&" + comp, "bool"] and b.sig_output == "std::string::String"]
    tr = plumbing.find_to_repr(lib)
    col = [b for b in col if tr is None or b.path != tr.path]
    pl = lib.display_body(comp) if hasattr(lib, "display_body") else None
    for b in lib.bodies:
        if b.impl_trait == "std::fmt::Display" and b.impl_self == comp and b.path.endswith("::fmt"):
            pl = b
    if len(col) != 1 or pl is None or tr is None:
        ctx.anchor_lost("COL-2", "the coloured renderer, the plain renderer and the selector of Component")
        return None
    col = col[0]
    me = ccp.Sym("self")
    m = ccp.Machine([lib], inline=fmtmodel.component_inline)
    # COL-1: the selector picks plain output when colour is off
    for flag in (False, True):
        ls = m.run(tr, [me, ccp.Const(flag)])
        vals = {ccp.show(l.value) for l in ls if l.kind == "return"}
        ok = len(ls) >= 1
        names = set()
        for l in ls:
            for e in l.events:
                if e["k"] == "call":
                    names.add(e["callee"])
    ls_plain = ccp.Machine([lib]).run(tr, [me, ccp.Const(False)])
    ok1 = len(ls_plain) == 1 and isinstance(ls_plain[0].value, ccp.Tmpl) and len(ls_plain[0].value.parts) == 1 \
        and isinstance(ls_plain[0].value.parts[0], ccp.Hole) and ls_plain[0].value.parts[0].v.key() == me.key()
    if ok1:
        ctx.ok("COL-1", tr.path + "(colour=false) = Display", None, tr.loc())
    else:
        ctx.violation("COL-1", (tr.path, "plain arm"), "with colour off the selector does not return the plain Display rendering: %s" % [ccp.show(l.value) for l in ls_plain], tr.loc())
    ls_col = ccp.Machine([lib]).run(tr, [me, ccp.Const(True)])
    ok2 = len(ls_col) == 1 and isinstance(ls_col[0].value, ccp.Call) and ls_col[0].value.callee == col.path \
        and ls_col[0].value.args[0].key() == me.key() and isinstance(ls_col[0].value.args[1], ccp.Const) and ls_col[0].value.args[1].v is False
    if ok2:
        ctx.ok("COL-1", tr.path + "(colour=true) = coloured renderer, unescaped", None, tr.loc())
    else:
        ctx.violation("COL-1", (tr.path, "coloured arm"), "with colour on the selector returns %s" % [ccp.show(l.value) for l in ls_col], tr.loc())
    # COL-2
    A = [l for l in m.run(col, [me, ccp.Const(False)]) if l.kind == "return"]
    B = [l for l in m.run(pl, [me, ccp.Sym("f")]) if l.kind == "return"]
    pats = stripping_patterns(lib)
    if not ctx.floor("COL-3", "constant SGR-stripping patterns", len(pats), 1):
        return None
    rx = []
    for b, t, v in pats:
        try:
            rx.append(re.compile(v))
        except re.error as e:
            ctx.undecided("COL-3", b.path, "cannot interpret stripping pattern %r: %s" % (v, e), b.loc(t.get("line")))
            return None

    def strip_with(r):
        return lambda s: r.sub("", s)
    adt = lib.adts.get(comp)
    vnames = [v["name"] for v in adt["variants"]] if adt else []
    npairs = 0
    seen_variants = set()
    for la in A:
        if not isinstance(la.value, ccp.Tmpl):
            ctx.undecided("COL-2", col.path, "coloured rendering is not a template on path %s" % (la.label,), col.loc())
            continue
        for lb in B:
            if not compatible(la, lb):
                continue
            w = [e for e in lb.events if e["k"] == "write_fmt"]
            if len(w) != 1 or not isinstance(w[0]["value"], ccp.Tmpl):
                ctx.undecided("COL-2", pl.path, "plain rendering is not one formatted write on path %s" % (lb.label,), pl.loc())
                continue
            npairs += 1
            vi = la.fact(ccp.Discr(me))
            vname = vnames[vi] if isinstance(vi, int) and vi < len(vnames) else str(vi)
            seen_variants.add(vname)
            plain_key = tmpl_key(w[0]["value"], lambda s: s)
            for r in rx:
                ck = tmpl_key(la.value, strip_with(r))
                if ck != plain_key:
                    ctx.violation("COL-2", (col.path, "Component::" + vname),
                                  "after removing colour codes the coloured rendering of Component::%s is %s but the plain rendering is %s [%s]"
                                  % (vname, _show_key(ck), _show_key(plain_key), ", ".join("%s=%s" % kv for kv in la.label)), col.loc())
                else:
                    ctx.ok("COL-2", "Component::%s|%s" % (vname, ";".join("%s=%s" % kv for kv in la.label[1:] + lb.label[1:])), {"plain": ccp.show(w[0]["value"])}, col.loc())
            # COL-4 on this leaf: a line break never sits inside a colour span (between an SGR start and the reset): the indenter splits the coloured text into lines
            # and drops empty ones *before* stripping, so a line consisting of a reset code alone would survive as a whitespace-only line
            flat = "".join(p if isinstance(p, str) else "\x00" for p in la.value.parts)
            inside = False
            broke = False
            for mm in re.finditer(r"\x1b\[([0-9;]*)m|\n", flat):
                if mm.group(0) == "\n":
                    if inside:
                        broke = True
                else:
                    inside = mm.group(1) not in ("0", "")
            if broke:
                ctx.violation("COL-4", (col.path, "Component::" + vname, "line break inside a colour span"),
                              "the coloured rendering of Component::%s puts a line break before the reset code (%r): after the indenter has split the output into lines, the next "
                              "line starts with the bare reset code and is no longer recognised as empty" % (vname, flat.replace("\x00", "{}")), col.loc())
            else:
                ctx.ok("COL-4", "Component::%s|%s" % (vname, ";".join("%s=%s" % kv for kv in la.label[1:])), None, col.loc())
            # COL-3 on this leaf: no ESC survives the repo's own stripper, and nothing but SGR is removed
            for p in la.value.parts:
                if isinstance(p, str):
                    for r in rx:
                        if "\x1b" in r.sub("", p):
                            ctx.violation("COL-3", (col.path, "Component::" + vname, "unstrippable"),
                                          "the coloured rendering emits an escape sequence the stripping pattern %r does not match: %r" % (r.pattern, p), col.loc())
    ctx.floor("COL-2", "Component variants compared", len(seen_variants), 18)
    ctx.extra["col2_leaf_pairs"] = npairs
    return col, pl


def _show_key(k):
    return "".join(v.replace("\n", "\\n") if kind == "s" else "{}" for kind, v in k)


def col3(ctx, lib):
    """colour codes handed to the SGR writer are of the form the stripper recognises"""
    writer = None
    for b in lib.bodies:
        if b.kind == "assoc_fn" and b.sig_inputs == ["&str", "&str", "bool"] and b.sig_output == "std::string::String" and b.path.startswith("component::"):
            writer = b
    if writer is None:
        ctx.anchor_lost("COL-3", "SGR writer (code, value, escaped) -> String")
        return
    pats = stripping_patterns(lib)
    n = 0
    for body, blk, term in guards.call_sites(lib, writer.path):
        d = guards.FnInfo.of(body).defs
        code = local.const_value(local.peel(d.operand(term["args"][0])))
        if not isinstance(code, str):
            ctx.violation("COL-3", (body.path, "colour code"), "colour code is not a constant", body.loc(term.get("line")))
            continue
        n += 1
        seq = "\x1b[%sm" % code
        bad = [v for _, _, v in pats if not re.fullmatch(v, seq)]
        if bad:
            ctx.violation("COL-3", (body.path, "colour code " + code), "the sequence ESC[%sm written for this colour is not recognised by the stripping pattern %r" % (code, bad[0]), body.loc(term.get("line")))
        else:
            ctx.ok("COL-3", "%s:code %s" % (body.path, code), None, body.loc(term.get("line")))
    ctx.floor("COL-3", "constant colour codes", n, 8)
    # template of the writer with escaped=false: ESC[{code}m{value}ESC[0m
    ls = ccp.Machine([lib]).run(writer, [ccp.Sym("code"), ccp.Sym("value"), ccp.Const(False)])
    okw = len(ls) == 1 and isinstance(ls[0].value, ccp.Tmpl)
    if okw:
        p = ls[0].value.parts
        okw = len(p) == 5 and p[0] == "\x1b[" and isinstance(p[1], ccp.Hole) and p[1].v.key() == ccp.Sym("code").key() and p[2] == "m" \
            and isinstance(p[3], ccp.Hole) and p[3].v.key() == ccp.Sym("value").key() and p[4] == "\x1b[0m"
    if okw:
        ctx.ok("COL-3", writer.path + ":ESC[{code}m{value}ESC[0m", None, writer.loc())
    else:
        ctx.violation("COL-3", (writer.path, "template"), "the SGR writer's template is %s, expected ESC[<code>m<value>ESC[0m" % [ccp.show(l.value) for l in ls], writer.loc())


ESC_IN_REGEX = re.compile(r"\x1b|\\x1[bB]|\\x\{0*1[bB]\}|\\u\{0*1[bB]\}|\\u001[bB]|\\U0000001[bB]|\\e")


def col5(ctx, lib, roles):
    """COL-5: every rewrite pass applied to the assembled output string is blind to colour codes."""
    from . import fmtmodel
    r = fmtmodel.regexp_fmt_leaves(ctx, lib, roles, rid="COL-5")
    if not r:
        ctx.anchor_lost("COL-5", "<RegExp as Display>::fmt")
        return
    b = r["body"]
    seen = {}
    coloured = 0
    for fl in r["leaves"]:
        if fl.flags.get("colour") is False:
            continue
        coloured += 1
        text = "".join(p for p in fl.base.parts if isinstance(p, str))
        alphabet = set("".join(fmtmodel.SGR.findall(text))) or set("\x1b[;m0123456789")
        for (callee, args), (_, chars, rep) in zip(fl.wrappers, fmtmodel.wrapper_patterns(fl)):
            key = "%s(%s)" % (callee.split("::")[-1], ", ".join(ccp.show(a) if not isinstance(a, tuple) else repr(a[1]) for a in args))
            if key in seen:
                continue
            verdict = None
            if callee in fmtmodel.REGEX_REPLACERS:
                pat = args[0][1] if args and isinstance(args[0], tuple) else None
                if pat is None:
                    verdict = ("undecided", "regex rewrite of the assembled output with a pattern that is not a constant")
                elif ESC_IN_REGEX.search(pat):
                    verdict = ("violation", "the pattern %r of a rewrite applied to the already colourised output mentions ESC: it either consumes the introducer of a "
                                            "colour code or decides by the character after a literal ESC, which differs between the highlighted output "
                                            "(next character: ESC of a colour code) and the plain one (next character: e.g. the '[' of a character class)" % pat)
                else:
                    verdict = ("undecided", "regex rewrite %r of the assembled output: colour-blindness of a general pattern is not decided" % pat)
            elif callee.endswith("<impl str>::replace"):
                if chars is None:
                    verdict = ("undecided", "str::replace on the assembled output with a pattern that is not a constant")
                else:
                    flat = set()
                    for c in chars:
                        flat |= set(c[4:]) if c.startswith("str:") else {c}
                    hit = sorted(flat & alphabet)
                    rtxt = args[1] if len(args) > 1 else None
                    rconst = "".join(p for p in rtxt.parts if isinstance(p, str)) if isinstance(rtxt, ccp.Tmpl) else None
                    if hit:
                        verdict = ("violation", "str::replace on the already colourised output rewrites %r, which occurs inside the colour codes" % hit)
                    elif rconst is None:
                        verdict = ("undecided", "replacement text of a str::replace on the assembled output is not a template")
                    elif "\x1b" in rconst:
                        verdict = ("violation", "replacement text %r inserts ESC into the output" % rconst)
                    else:
                        verdict = ("ok", None)
            elif callee.startswith("regexp::"):
                verdict = ("ok", None)      # the indenter: IND-1
            else:
                verdict = ("undecided", "unmodelled string rewrite %s applied to the assembled output" % callee)
            seen[key] = verdict
    for key, (kind, why) in sorted(seen.items()):
        if kind == "ok":
            ctx.ok("COL-5", "%s:%s" % (b.path, key), None, b.loc())
        elif kind == "violation":
            ctx.violation("COL-5", (b.path, key), why, b.loc())
        else:
            ctx.undecided("COL-5", (b.path, key), why, b.loc())
    ctx.floor("COL-5", "abstract paths with colour on or undecided", coloured, 1)


def ind1(ctx, lib):
    """the indenter's nesting decisions must not depend on colour"""
    ind = [b for b in lib.bodies if b.kind == "fn" and b.sig_output == "std::string::String" and b.sig_inputs and b.sig_inputs[0] == "std::string::String"
           and any((callee_name(t) or "").endswith("<impl str>::lines") for _, t in b.calls())
           and any((callee_name(t) or "").endswith("<impl str>::repeat") for _, t in b.calls())]
    if len(ind) != 1:
        ctx.anchor_lost("IND-1", "the indenter (String -> String using lines() and repeat())")
        return
    b = ind[0]
    fi = guards.FnInfo.of(b)
    d = fi.defs
    # nesting counter updates: statements `x = (Add|Sub)WithOverflow(copy x', 1)`
    updates = []
    for bi, blk in b.iter_blocks():
        for s in blk["stmts"]:
            if s["k"] == "assign" and s["rv"]["k"] == "binop" and s["rv"]["op"] in ("AddWithOverflow", "SubWithOverflow", "Add", "Sub"):
                c = s["rv"]["b"].get("c") if s["rv"]["b"].get("k") == "const" else None
                if c and c.get("t") == "int" and c.get("v") == 1 and "usize" in (c.get("ty") or "usize"):
                    updates.append((bi, s))
    if not ctx.floor("IND-1", "nesting-level updates in the indenter", len(updates), 2):
        return
    probs = {}
    nguards = 0
    for bi, s in updates:
        for g in guards.guards(b, bi):
            if g["loop"]:
                continue
            o = local.peel(g["origin"])
            if o[0] != "call":
                continue
            name = o[1]
            m = re.search(r"<impl str>::(starts_with|ends_with|contains|eq|find)$|PartialEq<?.*>?::(eq|ne)$|<impl str>::(is_empty)$", name)
            if not m and not name.endswith("::eq"):
                continue
            pred = [x for x in (m.groups() if m else ("eq",)) if x][0] if m else "eq"
            recv = o[2][0] if o[2] else None
            arg = o[2][1] if len(o[2]) > 1 else None
            stripped = recv is not None and any(x[0] == "call" and x[1].startswith("regex::Regex::replace") for x in local.walk(recv))
            cv = local.const_value(local.peel(arg)) if arg is not None else None
            nguards += 1
            if pred == "is_empty":
                continue
            if isinstance(cv, str) and cv.startswith("\x1b"):
                probs.setdefault("a test for the colour prefix %r" % cv, g["line"])
                continue
            if stripped:
                continue
            if pred == "contains" and isinstance(cv, str) and len(cv) == 1 and cv not in SGR_ALPHABET:
                continue
            if "line" in local.show(recv) or True:
                probs.setdefault("%s(%s) applied to the raw (possibly coloured) line" % (pred, repr(cv)), g["line"])
    if probs:
        ctx.violation("IND-1", (b.path, "colour-dependent nesting"),
                      "indentation decisions depend on colour: %s. A coloured line is the plain line with SGR codes inserted, so e.g. the coloured line `\\d\\)` "
                      "*contains* ')' although the plain line does not *start with* ')': the two outputs are indented differently"
                      % "; ".join(sorted(probs)), b.loc(min(probs.values())))
    else:
        ctx.ok("IND-1", b.path, {"nesting_updates": len(updates), "string_predicates": nguards, "all_on_colour_stripped_line": True}, b.loc())


def run(ctx):
    ctx.rule("COL-1", "the renderer selector returns the plain Display form when colour is off and the unescaped coloured form when on; every colour argument comes from the colour setting (PLB-1)")
    ctx.rule("COL-2", "for each of the 18 Component variants and every valuation of its flags, the coloured rendering minus SGR sequences (as defined by the repo's own stripping pattern) "
                      "equals the plain rendering (ccp string templates)")
    ctx.rule("COL-3", "writer/reader agreement on the SGR syntax: every constant colour code and the reset, as written by the SGR writer, fully matches the stripping pattern")
    ctx.rule("COL-4", "in every coloured component rendering the line break is outside the colour span (the indenter drops empty lines before stripping colour codes)")
    ctx.rule("COL-5", "every rewrite pass applied to the assembled, possibly colourised output in <RegExp as Display>::fmt is colour-blind: a str::replace whose "
                      "pattern shares no character with the colour codes and whose replacement has no ESC, or the indenter (IND-1); a regex rewrite mentioning ESC is a violation")
    ctx.rule("IND-1", "nesting decisions of the indenter are taken on the colour-stripped line (or by colour-insensitive predicates) and never on a test for the colour prefix")
    ctx.assume("whole-output equality additionally relies on PLB-1 (C06) and on the component decomposition; the indenter's plain heuristics themselves are not judged")
    prog = common.view(ctx, "default")
    lib = prog.lib
    roles = common.role_fields(ctx, lib, want=("colour",))
    col2(ctx, lib)
    col3(ctx, lib)
    ind1(ctx, lib)
    col5(ctx, lib, roles)
    plumbing.check(ctx, lib, roles, {}, want=("colour",))
