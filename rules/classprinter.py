"""Rules on the bracket-class printer (the function printing a BTreeSet<char> as [...]):
RAW-1  no class member reaches the output as a raw `char` outside the class escaper;
ADJ-1  ranges x-y are formed only over runs of consecutive scalar values (surrogate gap respected)."""
import re

from sa import ccp, guards, local
from sa.facts import callee_name, norm


def find_class_printer(lib):
    return [b for b in lib.bodies if b.kind == "fn" and any("std::collections::BTreeSet<char>" in t for t in b.sig_inputs)]


def ordinal(cp):
    return cp if cp < 0xD800 else cp - 0x800


def is_scalar(cp):
    return 0 <= cp <= 0x10FFFF and not (0xD800 <= cp <= 0xDFFF)


def int_constants(body):
    out = set()

    def scan_op(o):
        if o and o.get("k") == "const":
            c = o["c"]
            if c.get("t") in ("int", "char") and isinstance(c.get("v"), int):
                out.add(int(c["v"]))
    for _, blk in body.iter_blocks():
        for s in blk["stmts"]:
            if s["k"] == "assign":
                rv = s["rv"]
                for k in ("op", "a", "b"):
                    if isinstance(rv.get(k), dict):
                        scan_op(rv[k])
                for o in rv.get("ops", []) or []:
                    scan_op(o)
        t = blk.get("term")
        if t:
            if t["k"] == "switch":
                for v, _ in t["arms"]:
                    out.add(int(v))
            for a in t.get("args", []) or []:
                scan_op(a)
    return out


def sample_points(body):
    bps = {c for c in int_constants(body) if 0 < c <= 0x110000} | {0xD7FF, 0xD800, 0xDFFF, 0xE000, 0x800, 0xE800}
    pts = {0, 1, 0x7F, 0x80, 0xFFFF, 0x10000, 0x10FFFE, 0x10FFFF}
    for b in bps:
        for d in (-2, -1, 0, 1, 2):
            pts.add(b + d)
        # images of breakpoints under the gap shift
        for d in (-1, 0, 1):
            pts.add(b + 0x800 + d)
            pts.add(b - 0x800 + d)
    return sorted(p for p in pts if is_scalar(p))


def raw1(ctx, lib, escape_closures, rid="RAW-1"):
    fs = find_class_printer(lib)
    if not fs:
        ctx.anchor_lost(rid, "class printer (fn taking &BTreeSet<char>)")
        return
    n = 0
    for F in fs:
        bodies = [F] + [c for c in lib.bodies if c.kind == "closure" and c.parent == F.path]
        for b in bodies:
            if b.path in escape_closures:
                continue
            for bi, t in b.calls():
                nme = callee_name(t) or ""
                if nme.startswith("core::fmt::rt::Argument::new_") or nme.endswith("ToString>::to_string"):
                    n += 1
                    targs = t["callee"].get("res_args") or t["callee"].get("args") or []
                    ty = norm(targs[-1]) if targs else ""
                    while ty.startswith("&"):
                        ty = ty[1:].strip()
                    if ty == "char":
                        ctx.violation(rid, (b.path, "raw char printed"),
                                      "a member of the character class is formatted as a raw `char` outside the class escaper: special characters "
                                      "([ ] \\ ^ - and control characters) at this position are printed unescaped (e.g. the end point of a range x-\\)", b.loc(t.get("line")))
        ctx.ok(rid, F.path, {"formatting_sites_scanned": n, "escape_closures": sorted(escape_closures)}, F.loc())


def adj1(ctx, lib, rid="ADJ-1"):
    fs = find_class_printer(lib)
    if not fs:
        ctx.anchor_lost(rid, "class printer")
        return
    found = 0
    for F in fs:
        bodies = [F] + [c for c in lib.bodies if c.kind == "closure" and c.parent == F.path]
        callees = set()
        for b in bodies:
            for _, t in b.calls():
                nme = callee_name(t)
                cb = lib.body(nme) if nme else None
                if cb is not None:
                    callees.add(cb.path)
        for path in sorted(callees):
            cb = lib.body(path)
            if cb.sig_inputs == ["char"] and cb.sig_output == "usize":
                found += 1
                names = {callee_name(t) or "" for _, t in cb.calls()}
                for c in lib.bodies:
                    if c.kind == "closure" and c.parent == cb.path:
                        names |= {callee_name(t) or "" for _, t in c.calls()}
                if any(n.endswith("CharRange::all") for n in names) and any(n.endswith("::position") for n in names):
                    ctx.ok(rid, cb.path, {"position": "index in unic_char_range::CharRange::all() (library order of all scalar values)"}, cb.loc())
                    continue
                pts = sample_points(cb)
                m = ccp.Machine([lib], inline=lambda n: True, max_depth=3)
                vals = {}
                bad = None
                for cp in pts:
                    ls = [l for l in m.run(cb, [ccp.CharV(chr(cp))]) if l.kind == "return"]
                    if len(ls) != 1 or not isinstance(ls[0].value, ccp.Const) or not isinstance(ls[0].value.v, int):
                        bad = "undecided"
                        break
                    vals[cp] = ls[0].value.v
                if bad:
                    ctx.undecided(rid, cb.path, "position function is not a piecewise constant-offset map this analysis can evaluate", cb.loc())
                    continue
                k = vals[pts[0]] - ordinal(pts[0])
                wrong = [cp for cp in pts if vals[cp] - ordinal(cp) != k]
                if wrong:
                    cp = wrong[0]
                    clash = [o for o in pts if o != cp and vals[o] == vals[cp]]
                    ctx.violation(rid, (cb.path, "position"),
                                  "the position of U+%04X is %d, but it is the %d-th scalar value%s: non-consecutive class members would be collapsed into a range "
                                  "that also matches the code points in between" % (cp, vals[cp] - k, ordinal(cp), (" (same position as U+%04X)" % clash[0]) if clash else ""), cb.loc())
                else:
                    ctx.ok(rid, cb.path, {"verified_at": len(pts), "breakpoints": sorted(int_constants(cb))[:12]}, cb.loc())
            elif cb.sig_inputs == ["char", "char"] and cb.sig_output == "bool":
                found += 1
                pts = sample_points(cb)
                m = ccp.Machine([lib], inline=lambda n: True, max_depth=3)
                wrong = None
                und = False
                for x in pts:
                    for y in pts:
                        ls = [l for l in m.run(cb, [ccp.CharV(chr(x)), ccp.CharV(chr(y))]) if l.kind == "return"]
                        if len(ls) != 1 or not isinstance(ls[0].value, ccp.Const):
                            und = True
                            break
                        if bool(ls[0].value.v) != (ordinal(y) == ordinal(x) + 1):
                            wrong = (x, y, bool(ls[0].value.v))
                            break
                    if wrong or und:
                        break
                if und:
                    ctx.undecided(rid, cb.path, "adjacency predicate cannot be evaluated on constants", cb.loc())
                elif wrong:
                    ctx.violation(rid, (cb.path, "adjacency"), "adjacency(U+%04X, U+%04X) is %s, but the second %s the scalar value following the first"
                                  % (wrong[0], wrong[1], wrong[2], "is not" if wrong[2] else "is"), cb.loc())
                else:
                    ctx.ok(rid, cb.path, {"verified_pairs": len(pts) ** 2}, cb.loc())
        # the comparison using positions: Eq(second, first + 1)
        for b in bodies:
            for bi, blk in b.iter_blocks():
                t = blk.get("term")
                if t and t["k"] == "switch":
                    o = guards.FnInfo.of(b).defs.operand(t["discr"])
                    if o[0] == "binop" and o[1] in ("Eq", "Lt", "Le", "Gt", "Ge", "Ne"):
                        ks = [local.const_value(y) for x in local.walk(o) if x[0] == "binop" and x[1].startswith("Add") for y in x[2:4]
                              if isinstance(y, tuple) and isinstance(local.const_value(y), int) and not isinstance(local.const_value(y), bool)]
                        if not ks:
                            continue
                        if o[1] != "Eq":
                            ctx.violation(rid, (b.path, "adjacency comparison"), "positions are compared with %s instead of equality to first+1" % o[1], b.loc(t.get("line")))
                        elif ks != [1]:
                            ctx.violation(rid, (b.path, "adjacency comparison"), "the successor test compares with first+%s instead of first+1: members that are not consecutive "
                                          "are joined into a range x-y, which then also matches the characters between them" % ks[0], b.loc(t.get("line")))
                        else:
                            ctx.ok(rid, b.path + ":successor test is second == first + 1", None, b.loc(t.get("line")))
    if found == 0:
        ctx.anchor_lost(rid, "position function (char -> usize) or adjacency predicate ((char, char) -> bool) used by the class printer")


def tok1(ctx, lib, rid="TOK-1"):
    """TOK-1: the bracket-class printer emits its members one by one (or as first-last): none of its string constants is a shorthand or property token (\\d, \\w, \\s,
    \\p{..}, [:digit:] ...).  Such a token stands for a whole Unicode class (\\d = every decimal digit of every script), not for the members that are in the set."""
    printers = find_class_printer(lib)
    if not ctx.floor(rid, "bracket-class printers", len(printers), 1):
        return
    for fb in printers:
        bodies = [fb] + [c for c in lib.bodies if c.kind == "closure" and c.parent == fb.path]
        bad = []
        nconst = 0

        def scan(v, b, line):
            nonlocal nconst
            if isinstance(v, dict):
                if v.get("k") == "const":
                    c = v["c"]
                    from sa.facts import cval
                    val = cval(c)
                    if isinstance(val, (bytes, bytearray)):
                        try:
                            val = bytes(val).decode("utf-8", "replace")
                        except Exception:
                            val = None
                    if isinstance(val, str):
                        nconst += 1
                        m = re.search(r"\\[dDwWsSpPbBAzZhHvVRX]|\[:[a-z]+:\]", val)
                        if m:
                            bad.append((m.group(0), b, line))
                    return
                for x in v.values():
                    scan(x, b, line)
            elif isinstance(v, list):
                for x in v:
                    scan(x, b, line)
        for b in bodies:
            for _, blk in b.iter_blocks():
                for st in blk["stmts"]:
                    scan(st, b, st.get("line"))
                if blk.get("term"):
                    scan(blk["term"], b, blk["term"].get("line"))
        if bad:
            tok, b, line = bad[0]
            ctx.violation(rid, (fb.path, "class token " + tok), "the bracket-class printer can emit the token %s: inside [...] it stands for the whole Unicode class "
                          "(e.g. \\d = all decimal digits of all scripts), so the class accepts characters that are not members of the set" % tok, b.loc(line))
        else:
            ctx.ok(rid, fb.path, {"string_constants_scanned": nconst}, fb.loc())
