"""C09 — digit/word/space classification agrees with the regex crate on every code point."""
from sa import tables
from . import common


def run(ctx):
    ctx.rule("TAB-1", "each predicate's range table (evaluated constant of /repo) equals, as an interval set over all "
                      "1,114,112 code points, the table regex-syntax compiles for the class the closure emits for it")
    ctx.rule("TAB-2", "wiring: predicate -> lazy static -> initialiser(table const) -> (s,e) -> CharRange::closed(s,e) -> "
                      "any(range.contains(c)) with c the predicate's own parameter")
    ctx.rule("CLS-1", "ccp decision table of the class-conversion closure equals the documented precedence on every "
                      "feasible (settings x membership) valuation")
    ctx.assume("unic_char_range::CharRange::closed/contains are inclusive on both ends (documented)")
    ctx.assume("regex-syntax's \\d \\s \\w are exactly the tables referenced by unicode::perl_{digit,space,word}::imp in the version the lock file resolves")
    prog = common.view(ctx, "default")
    lib = prog.lib
    roles = common.role_fields(ctx, lib, want=common.CLASS_ROLES)
    r = common.cls1(ctx, prog, lib, roles)
    clo, pred_class, info = common.classify_predicates(ctx, prog, lib)
    if clo is None:
        return
    sigma = r["sigma"] if r else None
    oracle = info["oracle"]
    ctx.floor("TAB-2", "class predicates wired to a table", len(info["pred_tab"]), 3)
    rows = 0
    for p, (tpath, nt, nrows) in info["pred_tab"].items():
        rows += nrows
        tok = sigma[p] if sigma else pred_class.get(p)
        if tok is None:
            # CLS-1 failed: fall back to the closest oracle table so the report still names a code point
            tok = min(oracle, key=lambda k: tables.count(tables.difference(nt, oracle[k][1])) + tables.count(tables.difference(oracle[k][1], nt)))
        opath, ot, orow = oracle[tok]
        diff = tables.first_difference(nt, ot)
        if diff is None:
            ctx.ok("TAB-1", tpath, {"class": tok, "rows": nrows, "code_points": tables.count(nt),
                                    "oracle": "regex_syntax::" + opath, "oracle_rows": orow})
        else:
            cp, in_grex, in_regex = diff
            nd = tables.count(tables.difference(nt, ot)) + tables.count(tables.difference(ot, nt))
            ctx.violation("TAB-1", (tpath, "vs regex_syntax::" + opath),
                          "table used for %s differs from regex-syntax's on %d code point(s); first: %s is %s grex's table and %s regex's"
                          % (tok, nd, tables.fmt_cp(cp), "in" if in_grex else "not in", "in" if in_regex else "not in"))
    ctx.extra["table_rows_compared"] = rows
    ctx.extra["exhaustive"] = True
    if ctx.tier == "thorough":
        # alternative tables regex-syntax could select under other feature sets, if compiled in this build
        rs = prog.crate("regex_syntax.lib")
        for tok, p in info["pred_tab"].items():
            pass
        for cpath in sorted(rs.consts):
            t = common.const_table(rs, cpath)
            if t is None:
                continue
            nt = tables.normalize(t)
            for tok, (opath, ot, _) in oracle.items():
                if cpath != opath and cpath.split("::")[-1] == opath.split("::")[-1]:
                    d = tables.first_difference(nt, ot)
                    if d is None:
                        ctx.ok("TAB-1", "regex_syntax::" + cpath, {"equals": opath})
                    else:
                        ctx.note("alternative regex-syntax table %s differs from %s at %s" % (cpath, opath, tables.fmt_cp(d[0])))
