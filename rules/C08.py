"""C08 — anchors: only requested anchors; search returns the whole test case (emission exact; search: mechanism)."""
import re

from sa import ccp, guards, local
from sa.facts import callee_name, norm
from . import common, fmtmodel


def anc1(ctx, lib, roles):
    r = fmtmodel.regexp_fmt_leaves(ctx, lib, roles)
    if not r:
        return
    b = r["body"]
    n = 0
    sites = fmtmodel.replace_sites(lib, b)
    unbounded = set()
    for fl in r["leaves"]:
        sk, why = fmtmodel.parse_skeleton(fl)
        site = "%s|%s|alt=%s" % (b.path, ",".join("%s=%d" % (k, v) for k, v in sorted(fl.flags.items())), fl.alt)
        if sk is None:
            ctx.violation("ANC-1", (b.path, "skeleton"), "%s [settings %s]" % (why, fl.flags), b.loc())
            continue
        ns, ne = fl.flags.get("no_start_anchor"), fl.flags.get("no_end_anchor")
        bad = []
        if ns is None:
            bad.append("'^' is %s on a path that never tests the start-anchor setting: its presence does not depend on it" % ("emitted" if sk["caret"] else "omitted"))
        if ne is None:
            bad.append("'$' is %s on a path that never tests the end-anchor setting: its presence does not depend on it" % ("emitted" if sk["dollar"] else "omitted"))
        if bad:
            ctx.violation("ANC-1", (b.path, "anchors"), "; ".join(bad) + " [settings %s]" % fl.flags, b.loc())
            continue
        if sk["caret"] != (not ns):
            bad.append("'^' is %s although the start anchor is %s" % ("emitted" if sk["caret"] else "missing", "disabled" if ns else "enabled"))
        if sk["dollar"] != (not ne):
            bad.append("'$' is %s although the end anchor is %s" % ("emitted" if sk["dollar"] else "missing", "disabled" if ne else "enabled"))
        # nothing after the skeleton may rewrite its characters
        skel_chars = set(fmtmodel.strip_sgr(sk["raw_pre"] + sk["raw_suf"]))
        for rs in sites:
            if rs["chars"] is None:
                unbounded.add(rs["line"])
                continue
            hit = (set(rs["chars"]) & skel_chars) | ({"\n"} & set(rs["chars"]))
            # a pass only matters on paths where its guards hold: approximate by the verbose flag
            vg = [g for g in rs["guards"] if common.origin_config_field(g["origin"]) == roles.get("verbose")]
            if vg and not fl.flags.get("verbose"):
                continue
            if hit:
                bad.append("a later str::replace rewrites %r, which occurs in the emitted skeleton" % sorted(hit))
        if bad:
            ctx.violation("ANC-1", (b.path, "anchors"), "; ".join(bad) + " [settings %s]" % fl.flags, b.loc())
        else:
            n += 1
            ctx.ok("ANC-1", site, {"prefix": sk["raw_pre"], "suffix": sk["raw_suf"]}, b.loc())
    for ln in sorted(unbounded):
        ctx.undecided("ANC-1", b.path, "cannot bound which characters the str::replace at line %s rewrites (pattern is not a constant, a constant array or an element "
                      "of a constant iterable)" % ln, b.loc(ln))
    ctx.floor("ANC-1", "abstract paths of RegExp::fmt", n, 48)


ORDER_KEEPING = ("collect_vec", "collect", "map", "into_iter", "iter", "cloned", "copied", "to_vec", "rev_sorted_marker")


def _derives_in_order(vec, tgt):
    """vec is tgt itself or an element-wise, order-preserving image of it (into_iter / map / collect chain)"""
    x = local.peel(vec)
    for _ in range(12):
        if x == tgt or (x[0] == tgt[0] == "call" and x[1] == tgt[1] and len(x) > 3 and len(tgt) > 3 and x[3] == tgt[3]):
            return True
        if x[0] == "call" and x[1].rsplit("::", 1)[-1] in ORDER_KEEPING and x[2]:
            x = local.peel(x[2][0])
            continue
        return False
    return False


def _sort_key_kind(lib, fi, sort_term, sorted_vec):
    """'graphemes' for Reverse(len(option)); 'chars' for Reverse(item.0) where item.0 is Chars::count of a test case zipped to the clusters; else text"""
    key = fi.defs.operand(sort_term["args"][1])
    if not (key[0] == "agg" and key[1] == "closure" and lib.body(key[2]) is not None):
        return None, "sort key is not a closure"
    kr = local.Defs(lib.body(key[2])).local(0)
    if not (kr[0] == "agg" and kr[2] and kr[2].startswith("std::cmp::Reverse") and kr[3]):
        return None, "sort key is %s, expected Reverse(..) (longer alternatives first)" % local.show(kr)
    inner = local.peel(kr[3][0])
    if inner[0] == "call" and inner[1].endswith("::len") and lib.body(inner[1]) is not None:
        return "graphemes", "sort_by_key(|o| Reverse(o.len())) dominates"
    if inner[0] == "field" and inner[1] in (0, "0") and any(x[0] == "param" for x in local.walk(inner)):
        # the first tuple component of the sorted items: must be a char count zipped in front of the literals
        counts = False
        for x in local.walk(sorted_vec):
            if x[0] == "agg" and x[1] == "closure" and lib.body(x[2]) is not None:
                r = local.peel(local.Defs(lib.body(x[2])).local(0))
                if r[0] == "call" and r[1].endswith("str::Chars as std::iter::Iterator>::count") and any(y[0] == "param" for y in local.walk(r)):
                    counts = True
        zipped = any(x[0] == "call" and x[1].endswith("Iterator::zip") for x in local.walk(sorted_vec))
        paired = False
        for x in local.walk(sorted_vec):
            if x[0] == "agg" and x[1] == "closure" and lib.body(x[2]) is not None:
                r = local.peel(local.Defs(lib.body(x[2])).local(0))
                if r[0] == "agg" and r[1] == "tuple" and len(r[3]) == 2 and local.peel(r[3][0])[0] == "field" and local.peel(r[3][0])[1] in (0, "0"):
                    paired = True       # (count, literal-of-the-cluster): the count is passed through unchanged
        if counts and zipped and paired:
            return "chars", "sort_by_key(|(chars, _)| Reverse(chars)) with chars = test_case.chars().count() dominates"
        # loop form: the sorted vector is filled by push((test_case.chars().count(), literal)) for the items of zip(test cases, clusters)
        sv = local.peel(sorted_vec)
        if sv[0] == "call" and re.search(r"Vec::<T>::(?:new|with_capacity)$", sv[1]) and len(sv) > 3:
            pushes = []
            for bj, t2 in fi.body.calls():
                if (callee_name(t2) or "").endswith("Vec::<T, A>::push") and len(t2["args"]) == 2:
                    tg = local.peel(fi.defs.operand(t2["args"][0]))
                    while tg[0] in ("ref", "deref"):
                        tg = local.peel(tg[1])
                    if tg[0] == "call" and tg[1] == sv[1] and tg[3] == sv[3]:
                        pushes.append(local.peel(fi.defs.operand(t2["args"][1])))
            good = bool(pushes)
            for pv in pushes:
                if not (pv[0] == "agg" and pv[1] == "tuple" and len(pv[3]) == 2):
                    good = False
                    continue
                c0 = local.peel(pv[3][0])
                if not (c0[0] == "call" and c0[1].endswith("str::Chars as std::iter::Iterator>::count") and any(x[0] == "call" and x[1].endswith("Iterator::zip") for x in local.walk(c0))):
                    good = False
                if not any(x[0] == "call" and x[1].endswith("Iterator::zip") for x in local.walk(pv[3][1])):
                    good = False
            if good:
                return "chars", "sort_by_key(|(chars, _)| Reverse(chars)) over pairs pushed as (test_case.chars().count(), literal of the zipped cluster)"
        if counts:
            return "undecided", "items are ordered by their first component; a char count of the test cases is computed in the chain, but how it reaches that component is not recognised"
        return None, "items are ordered by their first component, which is not the char count of the test case"
    return None, "sort key is %s, expected Reverse(len(option)) or Reverse(char count)" % local.show(kr)


def alt1(ctx, lib):
    makers = {}
    for b in lib.bodies:
        if b.derived:
            continue
        for bi, blk in b.iter_blocks():
            for s in blk["stmts"]:
                if s["k"] == "assign" and s["rv"]["k"] == "aggregate" and s["rv"].get("agg") == "adt" \
                        and norm(s["rv"]["adt"]) == "expression::Expression" and s["rv"]["variant"] == "Alternation":
                    makers.setdefault(b.path, []).append((b, bi, s))
    if not ctx.floor("ALT-1", "functions constructing Expression::Alternation", len(makers), 1):
        return {}
    kinds = {}
    for path, lst in makers.items():
        for b, bi, s in lst:
            fi = guards.FnInfo.of(b)
            vec = local.peel(fi.defs.operand(s["rv"]["ops"][0]))
            ok = False
            kind = None
            why = "no sort of the alternatives dominates the construction"
            for bj, t in b.calls():
                n = callee_name(t) or ""
                if not re.search(r"::(?:sort_by_key|sort_by_cached_key|sort_unstable_by_key)$", n):
                    continue
                tgt = local.peel(fi.defs.operand(t["args"][0]))
                while tgt[0] == "call" and tgt[1].endswith("deref_mut"):
                    tgt = local.peel(tgt[2][0])
                if not fi.cfg.dominates(bj, bi):
                    continue
                # the sorted vector is the one stored in the variant (same local), or the stored one is its element-wise image
                same = (tgt == vec) or (tgt[0] == vec[0] == "call" and tgt[3] == vec[3]) or _same_root(fi, t["args"][0], s["rv"]["ops"][0]) or _derives_in_order(vec, tgt)
                if not same:
                    why = "the sorted vector is not the one stored in the alternation"
                    continue
                kind, why = _sort_key_kind(lib, fi, t, tgt)
                ok = kind is not None
            if ok and kind == "undecided":
                kinds[(path, bi)] = kind
                ctx.undecided("ALT-1", path, why, b.loc(s.get("line")))
            elif ok:
                kinds[(path, bi)] = kind
                ctx.ok("ALT-1", path, {"mechanism": why, "ordered_by": kind}, b.loc(s.get("line")))
            else:
                ctx.violation("ALT-1", (path, "Expression::Alternation"), "alternation constructed without ordering its alternatives longest-first: %s" % why, b.loc(s.get("line")))
    return {"makers": makers, "kinds": kinds}


def alt2(ctx, lib, alt):
    """ALT-2: an alternation that becomes the result *without being self-checked afterwards* (the last resort of the entry function) must be ordered by the
    number of chars its alternatives match.  Ordering by Expression::len() is ordering by graphemes, and a converted repetition such as a{3} is one grapheme:
    `a|ab|aaa` with repetition conversion and no end anchor became ab|a|a{3}, where searching `aaa` stops after `a`."""
    rid = "ALT-2"
    if not alt:
        return
    makers, kinds = alt["makers"], alt["kinds"]
    entries = [b for b in lib.bodies if b.kind in ("fn", "assoc_fn") and b.sig_output and b.sig_output.startswith("regexp::RegExp")
               and any("std::vec::Vec<std::string::String>" in t for t in b.sig_inputs)]
    if not ctx.floor(rid, "entry functions (test cases, settings) -> RegExp", len(entries), 1):
        return
    checkers = {b.path for b in lib.bodies if any(re.match(r"^regex::Regex::(?:new|find|is_match|find_iter)", callee_name(t) or "") for _, t in b.calls())}
    n = 0
    for E in entries:
        fi = guards.FnInfo.of(E)
        sites = []
        for bi, t in E.calls():
            nm = callee_name(t) or ""
            if nm in makers:
                ks = {k for (p_, _), k in kinds.items() if p_ == nm}
                sites.append((bi, t.get("line"), nm, ks.pop() if len(ks) == 1 else None))
        for (p_, bi), k in kinds.items():
            if p_ == E.path:
                sites.append((bi, None, "Expression::Alternation", k))
        for bi, line, what, kind in sites:
            n += 1
            after = fi.cfg.reachable_from(bi) - {bi}
            checked = False
            for bj in after:
                t2 = E.blocks[bj].get("term")
                if t2 and t2["k"] == "call":
                    nm2 = callee_name(t2) or ""
                    if nm2 in checkers:
                        checked = True
                    for a in t2["args"]:
                        for x in local.walk(fi.defs.operand(a)):
                            if x[0] == "agg" and x[1] == "closure" and x[2] in checkers:
                                checked = True
            if checked:
                ctx.ok(rid, "%s:%s#bb%d" % (E.path, what.rsplit("::", 1)[-1], bi), {"self_checked_afterwards": True}, E.loc(line))
            elif kind == "chars":
                ctx.ok(rid, "%s:%s#bb%d" % (E.path, what.rsplit("::", 1)[-1], bi), {"self_checked_afterwards": False, "ordered_by": "chars matched"}, E.loc(line))
            elif kind == "undecided":
                ctx.undecided(rid, "%s:%s" % (E.path, what.rsplit("::", 1)[-1]), "the sort key of the unchecked alternation could not be traced (see ALT-1)", E.loc(line))
            else:
                ctx.violation(rid, (E.path, "unchecked alternation ordered by " + (kind or "?")),
                              "the last-resort alternation built by %s is ordered by %s and is not self-checked afterwards: a converted repetition counts as one grapheme, "
                              "so a shorter alternative can precede a longer one that starts with it (a, ab, aaa with repetitions and no end anchor -> ab|a|a{3}; searching "
                              "`aaa` returns `a`)" % (what, "number of graphemes (Expression::len)" if kind == "graphemes" else "an unrecognised key"), E.loc(line))
    ctx.floor(rid, "alternations built directly by the entry function", n, 1)


def _same_root(fi, op_a, op_b):
    pa, pb = op_a.get("place"), op_b.get("place")
    if not pa or not pb:
        return False

    def root(l, depth=0):
        # follow `&mut _x` / deref_mut chains to the underlying local
        from sa.ordertaint import _mut_target_local
        r = _mut_target_local(fi.body, l)
        return r if r is not None else l
    ra = root(pa["l"])
    # deref_mut(&mut v): trace call argument
    d = fi.defs.defs.get(pa["l"], [])
    for dd in d:
        if dd[0] == "call" and (callee_name(dd[2]) or "").endswith("deref_mut"):
            a0 = dd[2]["args"][0].get("place")
            if a0:
                ra = root(a0["l"])
    return ra == pb["l"]


def self_check(ctx, lib, roles):
    """SCK-1 / SCK-2"""
    # the rotation check: crate fn taking &regex::Regex and &mut Expression
    rot = [b for b in lib.bodies if b.kind in ("fn", "assoc_fn") and any(t.startswith("&regex::Regex") for t in b.sig_inputs)
           and any(t.startswith("&mut expression::Expression") for t in b.sig_inputs)]
    if len(rot) != 1:
        ctx.anchor_lost("SCK-1", "self-check function taking &Regex and &mut Expression (found %d)" % len(rot))
        return
    rot = rot[0]
    sites = guards.call_sites(lib, rot.path)
    if not ctx.floor("SCK-1", "call sites of the alternation self-check", len(sites), 1):
        return
    f_end, f_start = roles.get("no_end_anchor"), roles.get("no_start_anchor")
    def judge(body, blk, depth=0):
        """(narrowing guards, end-anchor guard seen, guard list) for one call site; a helper that does not test the setting itself is judged at each of its own call sites"""
        gs = [g for g in guards.guards(body, blk) if not g["loop"]]
        cfg_guards = [(common.origin_config_field(g["origin"]), guards.edge_truth(g), g) for g in gs]
        narrowing = []
        has_end = False
        for f, truth, g in cfg_guards:
            if f is None:
                # a guard on something else: accepted only if it is the discriminant of an Option/Result (pattern compiled or not)
                o = g["origin"]
                if o[0] == "discr" or (o[0] == "call" and re.search(r"::is_(?:some|ok|none|err)$", o[1])):
                    continue
                narrowing.append("guard %s" % local.show(o))
            elif f == f_end and truth is True:
                has_end = True
            else:
                narrowing.append("setting `%s` == %s" % (f, truth))
        shown = ["%s==%s" % (f, t) for f, t, _ in cfg_guards]
        if not has_end and depth < 3 and not body.is_pub:
            root = lib.body(body.parent) if body.kind == "closure" else body
            up = guards.call_sites(lib, root.path)
            if up:
                has_end = True
                for b2, blk2, _ in up:
                    n2, h2, s2 = judge(b2, blk2, depth + 1)
                    narrowing += n2
                    has_end = has_end and h2
                    shown += ["%s: %s" % (b2.path, x) for x in s2]
        return narrowing, has_end, shown

    for body, blk, term in sites:
        narrowing, has_end, shown = judge(body, blk)
        if narrowing or not has_end:
            ctx.violation("SCK-1", (body.path, rot.path),
                          "alternation order is observable whenever '$' is absent, but the self-check additionally requires %s%s: with only the end anchor disabled "
                          "a shorter alternative can win the leftmost-first search" % (", ".join(narrowing) or "nothing", "" if has_end else " and does not test the end-anchor setting"),
                          body.loc(term.get("line")))
        else:
            ctx.ok("SCK-1", "%s->%s" % (body.path, rot.path), {"guards": shown}, body.loc(term.get("line")))
    # SCK-2: the per-test-case predicate
    from sa import callgraph
    reach = callgraph.CallGraph(lib).reachable([rot.path])
    preds = []
    for b in lib.bodies:
        if b.kind not in ("closure", "fn", "assoc_fn") or b.path not in reach or b.derived:
            continue
        names = [callee_name(t) or "" for _, t in b.calls()]
        if any(re.match(r"^regex::Regex::(?:find|find_iter|find_at|is_match|shortest_match|captures)", n) for n in names):
            preds.append(b)
    if not ctx.floor("SCK-2", "bodies evaluating the compiled pattern on a test case", len(preds), 1):
        return
    # SCK-3: the verdict ranges over every test case
    NARROW = re.compile(r"Iterator::(?:filter|filter_map|skip|skip_while|take|take_while|step_by|nth|last|find|find_map|position|peekable|map_while|scan)$|::dedup\w*$|::unique\w*$")
    for b in preds:
        if b.kind != "closure":
            # loop form: the searched item is the item of a loop over the whole list (a parameter), the only early exit returns `false`
            fi = guards.FnInfo.of(b)
            loops = fi.cfg.natural_loops()
            for bi, t in b.calls():
                if not re.match(r"^regex::Regex::(?:find|find_iter|find_at|is_match|shortest_match|captures)", callee_name(t) or ""):
                    continue
                o = fi.defs.operand(t["args"][1]) if len(t["args"]) > 1 else None
                nx = [x for x in local.walk(o) if x[0] == "call" and x[1].endswith("Iterator>::next") and len(x) > 3] if o is not None else []
                inloop = [x for x in nx if any(x[3] in body and bi in body for body in loops.values())]
                if not inloop:
                    ctx.undecided("SCK-3", b.path, "the searched text is not the item of a loop over the test cases", b.loc(t.get("line")))
                    continue
                src = inloop[0]
                narrowing = [y[1] for y in local.walk(src) if y[0] == "call" and NARROW.search(y[1])]
                from_param = any(y[0] == "param" for y in local.walk(src))
                if narrowing:
                    ctx.violation("SCK-3", (b.path, "test cases skipped by " + narrowing[0].rsplit("::", 1)[-1]),
                                  "the self-check only examines the test cases that pass %s" % narrowing[0], b.loc(t.get("line")))
                elif not from_param:
                    ctx.undecided("SCK-3", b.path, "cannot trace the examined items back to the list of test cases", b.loc(t.get("line")))
                else:
                    # a `continue`-like edge that skips the search inside the loop would be a guard of the search call other than the loop's own
                    hdrs = [h for h, body in loops.items() if src[3] in body and bi in body]
                    hdr = hdrs[0] if hdrs else None

                    def before_call(gb):
                        # is the guard's block reachable from the loop header without passing the search call (i.e. evaluated earlier in the same iteration)?
                        if hdr is None:
                            return True
                        seen, st = {hdr}, [hdr]
                        while st:
                            x = st.pop()
                            if x == gb:
                                return True
                            for y in fi.cfg.succ.get(x, []):
                                if y not in seen and y != bi and y != hdr and y in loops[hdr]:
                                    seen.add(y)
                                    st.append(y)
                        return False
                    gs = [g for g in guards.guards(b, bi) if not g["loop"] and g["block"] != src[3] and before_call(g["block"])
                          and not (local.peel(g["origin"])[0] == "discr" and any(y[0] == "call" and len(y) > 3 and y[3] == src[3] for y in local.walk(g["origin"])))]
                    if gs:
                        ctx.violation("SCK-3", (b.path, "search skipped under a condition"), "inside the loop the search is additionally guarded by %s: some test cases are not examined"
                                      % [local.show(g["origin"])[:60] for g in gs], b.loc(t.get("line")))
                    else:
                        ctx.ok("SCK-3", b.path + ":loop over every test case", None, b.loc(t.get("line")))
            continue
        site = common.closure_site(lib, b)
        if site is None:
            ctx.undecided("SCK-3", b.path, "cannot find where the per-test-case predicate is applied", b.loc())
            continue
        parent, pd, _ = site
        use = None
        for bj, t2 in parent.calls():
            ops = [pd.operand(a) for a in t2["args"]]
            if any(local.peel(o2)[0] == "agg" and local.peel(o2)[1] == "closure" and local.peel(o2)[2] == b.path for o2 in ops):
                use = (callee_name(t2) or "", ops, t2)
        if use is None:
            ctx.undecided("SCK-3", b.path, "cannot find where the per-test-case predicate is applied", b.loc())
            continue
        cal, ops, t2 = use
        if parent.kind == "closure":
            continue        # nested helper closure (e.g. is_some_and on the match): the outer one is judged
        if not re.search(r"Iterator>?::all$", cal):
            ctx.undecided("SCK-3", b.path, "the per-test-case predicate is applied by %s, not by Iterator::all" % cal, parent.loc(t2.get("line")))
            continue
        narrowing = [x[1] for x in local.walk(ops[0]) if x[0] == "call" and NARROW.search(x[1])]
        from_param = any(x[0] == "param" for x in local.walk(ops[0]))
        if narrowing:
            ctx.violation("SCK-3", (parent.path, "test cases skipped by " + narrowing[0].rsplit("::", 1)[-1]),
                          "the self-check only examines the test cases that pass %s: a test case that is filtered out is never searched, so a wrongly ordered alternation "
                          "(possible as soon as class conversion makes one alternative match a prefix of an unrelated test case) goes unnoticed" % narrowing[0], parent.loc(t2.get("line")))
        elif not from_param:
            ctx.undecided("SCK-3", parent.path, "cannot trace the examined items back to the list of test cases", parent.loc(t2.get("line")))
        else:
            ctx.ok("SCK-3", parent.path + ":all(..) over every test case", None, parent.loc(t2.get("line")))
    for b in preds:
        names = set()
        work = [b]
        while work:
            x = work.pop()
            for _, t in x.calls():
                names.add(callee_name(t) or "")
            work.extend(c for c in lib.bodies if c.kind == "closure" and c.direct_parent == x.path)
        extent = [n for n in names if re.match(r"^regex::Match::(?:as_str|start|end|range|len)$|^<regex::Match<'_> as|^regex::Match::<'h>::(?:as_str|start|end|range|len)$", n)
                  or n.endswith("shortest_match")]
        if extent:
            ctx.ok("SCK-2", b.path, {"extent_accessors": sorted(extent)}, b.loc())
        else:
            ctx.violation("SCK-2", (b.path, "match extent"),
                          "the self-check's verdict never looks at the extent of the match (calls: %s): a too-short match followed by unmatched text also passes"
                          % sorted(n for n in names if n.startswith("regex::") or n.endswith("::count")), b.loc())


def pipe1(ctx, lib):
    """PIPE-1: every stage of the entry function (automaton from the minimised trie, automaton from the raw trie, last-resort alternation) is built from
    the *same* vector of converted grapheme clusters.  A stage fed by freshly built clusters silently drops the requested conversions, so disabling the end anchor
    would change the language of the body."""
    rid = "PIPE-1"
    CL = "cluster::GraphemeCluster"
    entries = [b for b in lib.bodies if b.kind in ("fn", "assoc_fn") and b.sig_output and b.sig_output.startswith("regexp::RegExp")
               and any("std::vec::Vec<std::string::String>" in t for t in b.sig_inputs)]
    if not ctx.floor(rid, "entry functions (test cases, settings) -> RegExp", len(entries), 1):
        return
    for E in entries:
        bodies = [E] + [c for c in lib.bodies if c.kind == "closure" and c.parent == E.path]
        sources = {}
        n_sites = 0

        def source_of(body, d, o, depth=0):
            """root producer call of a cluster value: (callee, body path, block) or ('param'|'unknown', ..)"""
            for x in local.walk(o):
                if x[0] == "call" and lib.body(x[1]) is not None and CL in (lib.body(x[1]).sig_output or "") and not lib.body(x[1]).derived:
                    return (x[1], body.path, x[3] if len(x) > 3 else None)
                if x[0] == "agg" and x[1] == "closure" and lib.body(x[2]) is not None and x[2] != body.path:
                    # a closure in the iterator chain that produces the clusters itself
                    cb2 = lib.body(x[2])
                    for y in local.walk(local.Defs(cb2).local(0)):
                        if y[0] == "call" and lib.body(y[1]) is not None and CL in (lib.body(y[1]).sig_output or "") and not lib.body(y[1]).derived:
                            return (y[1], cb2.path, y[3] if len(y) > 3 else None)
            if body.kind == "closure" and depth < 3 and any(x[0] == "param" for x in local.walk(o)):
                site = common.closure_site(lib, body)
                if site is not None:
                    parent, pd, _ = site
                    for bj, t2 in parent.calls():
                        ops = [pd.operand(a) for a in t2["args"]]
                        if any(local.peel(o2)[0] == "agg" and local.peel(o2)[1] == "closure" and local.peel(o2)[2] == body.path for o2 in ops):
                            return source_of(parent, pd, ops[0], depth + 1)
            return ("unknown", body.path, local.show(o)[:80])

        for b in bodies:
            d = local.Defs(b)
            for bi, t in b.calls():
                cb = lib.body(callee_name(t) or "")
                if cb is None or cb.derived:
                    continue
                idx = [i for i, ty in enumerate(cb.sig_inputs) if CL in ty]
                if not idx or CL in (cb.sig_output or ""):
                    continue        # not a consumer (or itself a cluster producer/transformer)
                if not re.search(r"dfa::Dfa|expression::Expression", cb.sig_output or ""):
                    continue
                n_sites += 1
                src = source_of(b, d, d.operand(t["args"][idx[0]]))
                sources.setdefault(src, []).append((b, bi, t, cb))
        if not ctx.floor(rid, "stages consuming grapheme clusters in " + E.path, n_sites, 2):
            continue
        main = [s_ for s_ in sources if s_[1] == E.path and s_[0] not in ("unknown",)]
        if len(sources) == 1 and main:
            ctx.ok(rid, E.path, {"stages": n_sites, "single_source": main[0][0]}, E.loc())
            continue
        if any(s_[0] == "unknown" for s_ in sources):
            u = [s_ for s_ in sources if s_[0] == "unknown"][0]
            ctx.undecided(rid, E.path, "cannot trace the clusters consumed at %s back to their producer (%s)" % (u[1], u[2]), E.loc())
            continue
        # the source of the first (dominating) stage is the reference
        ref = None
        for s_, sites in sources.items():
            if any(b is E and bi == min(bi2 for ss in sources.values() for b2, bi2, _, _ in ss if b2 is E) for b, bi, _, _ in sites):
                ref = s_
        for s_, sites in sources.items():
            if s_ == ref:
                continue
            b, bi, t, cb = sites[0]
            ctx.violation(rid, (E.path, "stage " + cb.path.rsplit("::", 1)[-1] + " fed by " + s_[0].rsplit("::", 1)[-1]),
                          "%s is fed by clusters produced by %s (in %s) while the main path uses %s: this stage ignores whatever conversions the shared vector went through, "
                          "so the pattern body differs from the anchored build for inputs that reach it" % (cb.path, s_[0], s_[1], ref[0] if ref else "?"), b.loc(t.get("line")))



# ----------------------------------------------------------------------------- ZIP-1: positional pairing of test cases and clusters

_ELEMENTWISE_ADAPTORS = ("::iter", "::into_iter", "::iter_mut", "Iterator::map", "Iterator::cloned", "Iterator::copied", "Iterator::inspect", "Iterator::by_ref",
                         "Iterator::peekable", "Iterator::fuse", "::deref", "::deref_mut", "::as_slice", "::as_mut_slice", "::as_ref", "::borrow", "::clone")
_RESHAPING_ADAPTORS = ("Iterator::filter", "Iterator::filter_map", "Iterator::flat_map", "Iterator::flatten", "Iterator::skip", "Iterator::take", "Iterator::skip_while",
                       "Iterator::take_while", "Iterator::step_by", "Iterator::rev", "Iterator::chain", "Iterator::map_while", "Iterator::scan", "Itertools::dedup",
                       "Itertools::dedup_by", "Itertools::unique", "Itertools::unique_by", "Itertools::sorted", "Itertools::sorted_by", "Itertools::sorted_by_key",
                       "Itertools::sorted_unstable", "Itertools::coalesce", "Itertools::interleave", "Itertools::merge", "Itertools::rev", "Iterator::cycle",
                       "Itertools::step", "Itertools::filter_ok", "Itertools::positions", "Itertools::tail", "Itertools::k_smallest")
_RESHAPING_METHODS = ("dedup", "dedup_by", "dedup_by_key", "retain", "retain_mut", "remove", "swap_remove", "truncate", "push", "insert", "pop", "drain", "sort", "sort_by",
                      "sort_by_key", "sort_unstable", "sort_unstable_by", "sort_unstable_by_key", "sort_by_cached_key", "reverse", "clear", "extend", "append",
                      "split_off", "swap", "rotate_left", "rotate_right", "resize", "resize_with", "splice", "extend_from_slice", "select_nth_unstable", "fill_with",
                      "extract_if", "shrink_to")
_HARMLESS_METHODS = ("iter", "iter_mut", "deref", "deref_mut", "index", "index_mut", "get", "get_mut", "first", "first_mut", "last", "last_mut", "len", "is_empty",
                     "as_slice", "as_mut_slice", "clone", "contains", "into_iter", "as_ref", "as_mut", "fmt", "eq", "ne", "capacity", "reserve", "shrink_to_fit", "to_vec",
                     "iter().cloned", "borrow", "borrow_mut", "to_owned")


def _chain_verdict(o, stop=None):
    """classify the iterator chain of an origin term down to its source: (reshaping adaptor | None, unknown adaptor | None, source term)"""
    bad = unknown = None
    cur = local.peel(o)
    for _ in range(40):
        if cur[0] != "call":
            break
        if stop is not None and stop(cur):
            break
        n = cur[1]
        if n.endswith(("Itertools::collect_vec", "Iterator::collect")):
            pass
        elif any(n.endswith(a) for a in _RESHAPING_ADAPTORS):
            bad = bad or n
        elif any(n.endswith(a) for a in _ELEMENTWISE_ADAPTORS):
            pass
        else:
            unknown = unknown or n
        if not cur[2]:
            break
        cur = local.peel(cur[2][0])
    return bad, unknown, cur


def zip1(ctx, lib):
    """ZIP-1: where the entry function pairs test cases with their clusters *by position* (Iterator::zip), the cluster vector corresponds to the test-case
    vector element by element: its producer builds it by an element-wise chain over the test cases and afterwards changes it only in place (no dedup / retain / sort /
    push / remove ... on it), and the test-case side of the zip is an element-wise chain over the same test-case parameter."""
    rid = "ZIP-1"
    CL = "cluster::GraphemeCluster"
    entries = [b for b in lib.bodies if b.kind in ("fn", "assoc_fn") and b.sig_output and b.sig_output.startswith("regexp::RegExp")
               and any("std::vec::Vec<std::string::String>" in t for t in b.sig_inputs)]
    n = 0
    for E in entries:
        for b in [E] + [c for c in lib.bodies if c.kind == "closure" and c.parent == E.path]:
            d = local.Defs(b)
            for bi, t in b.calls():
                if not (callee_name(t) or "").endswith("Iterator::zip") or len(t["args"]) != 2:
                    continue
                sides = [d.operand(a) for a in t["args"]]
                prod = [None, None]
                for i, o in enumerate(sides):
                    for x in local.walk(o):
                        if x[0] == "call" and lib.body(x[1]) is not None and ("Vec<%s" % CL) in (lib.body(x[1]).sig_output or "") and not lib.body(x[1]).derived:
                            prod[i] = x
                            break
                if not any(prod):
                    continue            # a zip that does not involve the cluster vector
                n += 1
                ci = 0 if prod[0] else 1
                site = "%s:zip@%s" % (b.path, prod[ci][1].split("::")[-1])
                problems, unknowns = [], []
                # (1) the other side: element-wise over the test-case parameter
                bad, unk, src = _chain_verdict(sides[1 - ci])
                roots = [x for x in local.walk(src) if x[0] == "param"]
                if bad:
                    problems.append("the test-case side of the pairing passes through %s" % bad.split("::")[-1])
                elif unk or not roots:
                    unknowns.append("test-case side of the pairing: %s" % (unk or local.show(src)[:80]))
                # (1b) the test-case vector is not reshaped between the production of the clusters and the pairing
                if roots and b is E and len(prod[ci]) > 3 and prod[ci][3] is not None:
                    from sa import guards as G
                    cfg = G.FnInfo.of(b).cfg
                    after = cfg.reachable_from(prod[ci][3])
                    tp, tu = [], []
                    for bj, t2 in b.calls():
                        if bj in after and bj != prod[ci][3] and bi in cfg.reachable_from(bj):
                            _vec_uses(lib, b, d, lambda x: x[0] == "param" and x[1] == roots[0][1], tp, tu, "after the clusters were produced", only_block=bj,
                                      what="test-case vector")
                    problems += tp
                    unknowns += tu
                # (2) the cluster side between producer and zip: element-wise
                bad, unk, src = _chain_verdict(sides[ci], stop=lambda c: c is prod[ci] or (c[1] == prod[ci][1]))
                if bad:
                    problems.append("the cluster side of the pairing passes through %s" % bad.split("::")[-1])
                elif unk:
                    unknowns.append("cluster side of the pairing: %s" % unk)
                # (2b) the cluster vector is not reshaped in the entry function before the zip
                _vec_uses(lib, b, d, lambda x: x[0] == "call" and x[1] == prod[ci][1] and (len(x) < 4 or len(prod[ci]) < 4 or x[3] == prod[ci][3]), problems, unknowns,
                          "in " + b.path)
                # (3) the producer: element-wise construction from its test-case parameter, then in-place changes only
                P = lib.body(prod[ci][1])
                pd = local.Defs(P)
                ret = local.peel(pd.local(0))
                if ret[0] == "multi":
                    unknowns.append("the producer %s returns one of several vectors" % P.path)
                elif ret[0] == "call" and re.search(r"Vec::<T>::(?:new|with_capacity)$", ret[1]) and len(ret) > 3:
                    # loop form: an empty vector filled by exactly one unconditional push per iteration of a loop over the test cases
                    pfi = guards.FnInfo.of(P)
                    loops = pfi.cfg.natural_loops()
                    is_ret = lambda x: x[0] == "call" and x[1] == ret[1] and x[3] == ret[3]
                    pushes = []
                    for bj, t2 in P.calls():
                        n2 = callee_name(t2) or ""
                        if not t2["args"]:
                            continue
                        cur = local.peel(pd.operand(t2["args"][0]))
                        while cur[0] == "call" and cur[1].endswith(("::deref", "::deref_mut")) and cur[2]:
                            cur = local.peel(cur[2][0])
                        if not is_ret(cur):
                            continue
                        m2 = n2.split("::")[-1]
                        if m2 == "push":
                            pushes.append((bj, t2))
                        elif m2 in _RESHAPING_METHODS:
                            problems.append("in the producer %s the cluster vector is reshaped by %s()" % (P.path, m2))
                        elif m2 not in _HARMLESS_METHODS and "deref_mut" in local.show(pd.operand(t2["args"][0])):
                            unknowns.append("in the producer %s the cluster vector is changed by %s()" % (P.path, m2))
                    if len(pushes) != 1:
                        unknowns.append("the producer %s fills the cluster vector by %d push sites" % (P.path, len(pushes)))
                    else:
                        bj, t2 = pushes[0]
                        inl = [h for h, body_ in loops.items() if bj in body_]
                        gs = [g for g in guards.guards(P, bj) if not g["loop"]]
                        heads = [g for g in guards.guards(P, bj) if g["loop"]]
                        over_param = any(any(y[0] == "param" for y in local.walk(g["origin"])) and not any(
                            y[0] == "call" and any(y[1].endswith(a_) for a_ in _RESHAPING_ADAPTORS) for y in local.walk(g["origin"])) for g in heads)
                        if len(inl) != 1 or not over_param:
                            unknowns.append("the push in %s is not inside exactly one loop over the test cases" % P.path)
                        elif gs:
                            problems.append("in the producer %s a cluster is pushed only under %s: a test case without a cluster shifts every later pair"
                                            % (P.path, local.show(gs[0]["origin"])[:60]))
                else:
                    bad, unk, src = _chain_verdict(ret)
                    if bad:
                        problems.append("the producer %s builds the cluster vector through %s" % (P.path, bad.split("::")[-1]))
                    elif unk or not [x for x in local.walk(src) if x[0] == "param"]:
                        unknowns.append("construction of the cluster vector in %s: %s" % (P.path, unk or local.show(src)[:80]))
                    if ret[0] == "call":
                        _vec_uses(lib, P, pd, lambda x: x[0] == "call" and x[1] == ret[1] and (len(x) < 4 or len(ret) < 4 or x[3] == ret[3]), problems, unknowns,
                                  "in the producer " + P.path)
                if problems:
                    ctx.violation(rid, (b.path, "positional pairing"), "test cases and clusters are paired by position, but %s: once an element is dropped, added or moved on one side "
                                  "only, every later cluster is paired with the wrong test case (e.g. its character count, which orders the last-resort alternation)"
                                  % "; ".join(problems), b.loc(t.get("line")))
                elif unknowns:
                    ctx.undecided(rid, site, "; ".join(unknowns), b.loc(t.get("line")))
                else:
                    ctx.ok(rid, site, {"producer": prod[ci][1]}, b.loc(t.get("line")))
    return n


def _vec_uses(lib, body, d, is_vec, problems, unknowns, where, only_block=None, what="cluster vector"):
    """classify every call of `body` whose receiver is (a borrow of) the vector identified by `is_vec`"""
    for bj, t2 in body.calls():
        n2 = callee_name(t2) or ""
        if not t2["args"] or (only_block is not None and bj != only_block):
            continue
        o = d.operand(t2["args"][0])
        # the receiver chain: references / deref / deref_mut / as_mut_slice only between the call and the vector
        cur = local.peel(o)
        hops = 0
        while cur[0] == "call" and cur[1].endswith(("::deref", "::deref_mut", "::as_mut_slice", "::as_slice", "::borrow_mut", "::as_mut")) and cur[2] and hops < 6:
            cur = local.peel(cur[2][0])
            hops += 1
        if not is_vec(cur):
            continue
        m = n2.split("::")[-1]
        if not (n2.startswith(("std::vec::Vec", "alloc::vec::Vec", "core::slice::<impl [T]>", "std::slice::<impl [T]>", "<std::vec::Vec", "itertools::Itertools"))
                or "<impl [T]>" in n2):
            cb = lib.body(n2)
            if cb is not None and cb.sig_inputs and cb.sig_inputs[0].startswith("&mut"):
                unknowns.append("%s passes the %s by mutable reference to %s" % (where, what, n2))
            continue
        if m in _RESHAPING_METHODS:
            problems.append("%s the %s is reshaped by %s()" % (where, what, m))
        elif m in _HARMLESS_METHODS:
            continue
        elif hops and any(x[0] == "call" and x[1].endswith("deref_mut") for x in local.walk(o)):
            unknowns.append("%s the %s is changed by %s(), an operation this rule does not know" % (where, what, m))


def run(ctx):
    ctx.rule("ANC-1", "ccp over <RegExp as Display>::fmt (Component rendering inlined): on every abstract path the literal skeleton is "
                      "<flag><^ iff start anchor enabled><group> expr <)><$ iff end anchor enabled>, and no later replace touches skeleton characters")
    ctx.rule("ALT-1", "every construction of Expression::Alternation is dominated by a longest-first sort (Reverse(len) or Reverse(char count)) of the stored vector or of its element-wise pre-image")
    ctx.rule("ALT-2", "an alternation that becomes the result without a later self-check (last resort) is ordered by the chars its alternatives match, not by graphemes")
    ctx.rule("PIPE-1", "all stages of the entry function (minimised automaton, raw-trie automaton, last-resort alternation) consume the same converted cluster vector")
    ctx.rule("ZIP-1", "where test cases and clusters are paired by position (zip), both sides are element-wise images of the same test-case vector: element-wise "
                      "iterator chains, and no reshaping (dedup / retain / sort / push / remove ...) of the cluster vector in its producer or before the pairing")
    ctx.rule("SCK-1", "the alternation-order self-check is guarded by the end-anchor setting alone (plus 'pattern compiled'): order is observable whenever '$' is absent")
    ctx.rule("SCK-3", "the self-check's verdict is Iterator::all over the whole list of test cases (no filter/skip/take between the list and the predicate)")
    ctx.rule("SCK-2", "the per-test-case predicate of the self-check inspects the match extent (regex::Match accessor), not just a match count")
    ctx.assume("with '$' present a leftmost-first search on a member of the language ends at the end of the string (regex crate semantics)")
    ctx.assume("indent_regexp only adds indentation (its colour-independence is C15 IND-1; its content preservation is not decided)")
    prog = common.view(ctx, "default")
    lib = prog.lib
    roles = common.role_fields(ctx, lib, want=common.FMT_ROLES)
    anc1(ctx, lib, roles)
    alt2(ctx, lib, alt1(ctx, lib))
    pipe1(ctx, lib)
    zip1(ctx, lib)
    self_check(ctx, lib, roles)
