"""C08 — anchors: only requested anchors; search returns the whole test case (emission exact; search: mechanism)."""
import re

from sa import ccp, guards, local
from sa.facts import callee_name, norm
from . import common, fmtmodel


def anc1(ctx, lib, roles):
    r = fmtmodel.regexp_fmt_leaves(ctx, lib, roles)
    if not r:
        return
    b = r["body"]
    n = 0
    sites = fmtmodel.replace_sites(lib, b)
    unbounded = set()
    for fl in r["leaves"]:
        sk, why = fmtmodel.parse_skeleton(fl)
        site = "%s|%s|alt=%s" % (b.path, ",".join("%s=%d" % (k, v) for k, v in sorted(fl.flags.items())), fl.alt)
        if sk is None:
            ctx.violation("ANC-1", (b.path, "skeleton"), "%s [settings %s]" % (why, fl.flags), b.loc())
            continue
        ns, ne = fl.flags.get("no_start_anchor"), fl.flags.get("no_end_anchor")
        bad = []
        if ns is None:
            bad.append("'^' is %s on a path that never tests the start-anchor setting: its presence does not depend on it" % ("emitted" if sk["caret"] else "omitted"))
        if ne is None:
            bad.append("'$' is %s on a path that never tests the end-anchor setting: its presence does not depend on it" % ("emitted" if sk["dollar"] else "omitted"))
        if bad:
            ctx.violation("ANC-1", (b.path, "anchors"), "; ".join(bad) + " [settings %s]" % fl.flags, b.loc())
            continue
        if sk["caret"] != (not ns):
            bad.append("'^' is %s although the start anchor is %s" % ("emitted" if sk["caret"] else "missing", "disabled" if ns else "enabled"))
        if sk["dollar"] != (not ne):
            bad.append("'$' is %s although the end anchor is %s" % ("emitted" if sk["dollar"] else "missing", "disabled" if ne else "enabled"))
        # nothing after the skeleton may rewrite its characters
        skel_chars = set(fmtmodel.strip_sgr(sk["raw_pre"] + sk["raw_suf"]))
        for rs in sites:
            if rs["chars"] is None:
                unbounded.add(rs["line"])
                continue
            hit = (set(rs["chars"]) & skel_chars) | ({"\n"} & set(rs["chars"]))
            # a pass only matters on paths where its guards hold: approximate by the verbose flag
            vg = [g for g in rs["guards"] if common.origin_config_field(g["origin"]) == roles.get("verbose")]
            if vg and not fl.flags.get("verbose"):
                continue
            if hit:
                bad.append("a later str::replace rewrites %r, which occurs in the emitted skeleton" % sorted(hit))
        if bad:
            ctx.violation("ANC-1", (b.path, "anchors"), "; ".join(bad) + " [settings %s]" % fl.flags, b.loc())
        else:
            n += 1
            ctx.ok("ANC-1", site, {"prefix": sk["raw_pre"], "suffix": sk["raw_suf"]}, b.loc())
    for ln in sorted(unbounded):
        ctx.undecided("ANC-1", b.path, "cannot bound which characters the str::replace at line %s rewrites (pattern is not a constant, a constant array or an element "
                      "of a constant iterable)" % ln, b.loc(ln))
    ctx.floor("ANC-1", "abstract paths of RegExp::fmt", n, 48)


def alt1(ctx, lib):
    makers = {}
    for b in lib.bodies:
        if b.derived:
            continue
        for bi, blk in b.iter_blocks():
            for s in blk["stmts"]:
                if s["k"] == "assign" and s["rv"]["k"] == "aggregate" and s["rv"].get("agg") == "adt" \
                        and norm(s["rv"]["adt"]) == "expression::Expression" and s["rv"]["variant"] == "Alternation":
                    makers.setdefault(b.path, []).append((b, bi, s))
    if not ctx.floor("ALT-1", "functions constructing Expression::Alternation", len(makers), 1):
        return
    for path, lst in makers.items():
        for b, bi, s in lst:
            fi = guards.FnInfo.of(b)
            vec = local.peel(fi.defs.operand(s["rv"]["ops"][0]))
            ok = False
            why = "no sort of the alternatives dominates the construction"
            for bj, t in b.calls():
                n = callee_name(t) or ""
                if not re.search(r"::(?:sort_by_key|sort_by_cached_key|sort_unstable_by_key)$", n):
                    continue
                tgt = local.peel(fi.defs.operand(t["args"][0]))
                while tgt[0] == "call" and tgt[1].endswith("deref_mut"):
                    tgt = local.peel(tgt[2][0])
                if not fi.cfg.dominates(bj, bi):
                    continue
                # the sorted vector is the one stored in the variant (same local)
                same = (tgt == vec) or (tgt[0] == vec[0] == "call" and tgt[3] == vec[3]) or _same_root(fi, t["args"][0], s["rv"]["ops"][0])
                if not same:
                    why = "the sorted vector is not the one stored in the alternation"
                    continue
                key = fi.defs.operand(t["args"][1])
                if key[0] == "agg" and key[1] == "closure" and lib.body(key[2]) is not None:
                    kr = local.Defs(lib.body(key[2])).local(0)
                    txt = local.show(kr)
                    if kr[0] == "agg" and kr[2] and kr[2].startswith("std::cmp::Reverse") and kr[3] and kr[3][0][0] == "call" and kr[3][0][1].endswith("::len"):
                        ok = True
                        why = "sort_by_key(|o| Reverse(o.len())) dominates"
                    else:
                        why = "sort key is %s, expected Reverse(len(option)) (longer alternatives first)" % txt
            if ok:
                ctx.ok("ALT-1", path, {"mechanism": why}, b.loc(s.get("line")))
            else:
                ctx.violation("ALT-1", (path, "Expression::Alternation"), "alternation constructed without ordering its alternatives longest-first: %s" % why, b.loc(s.get("line")))


def _same_root(fi, op_a, op_b):
    pa, pb = op_a.get("place"), op_b.get("place")
    if not pa or not pb:
        return False

    def root(l, depth=0):
        # follow `&mut _x` / deref_mut chains to the underlying local
        from sa.ordertaint import _mut_target_local
        r = _mut_target_local(fi.body, l)
        return r if r is not None else l
    ra = root(pa["l"])
    # deref_mut(&mut v): trace call argument
    d = fi.defs.defs.get(pa["l"], [])
    for dd in d:
        if dd[0] == "call" and (callee_name(dd[2]) or "").endswith("deref_mut"):
            a0 = dd[2]["args"][0].get("place")
            if a0:
                ra = root(a0["l"])
    return ra == pb["l"]


def self_check(ctx, lib, roles):
    """SCK-1 / SCK-2"""
    # the rotation check: crate fn taking &regex::Regex and &mut Expression
    rot = [b for b in lib.bodies if b.kind in ("fn", "assoc_fn") and any(t.startswith("&regex::Regex") for t in b.sig_inputs)
           and any(t.startswith("&mut expression::Expression") for t in b.sig_inputs)]
    if len(rot) != 1:
        ctx.anchor_lost("SCK-1", "self-check function taking &Regex and &mut Expression (found %d)" % len(rot))
        return
    rot = rot[0]
    sites = guards.call_sites(lib, rot.path)
    if not ctx.floor("SCK-1", "call sites of the alternation self-check", len(sites), 1):
        return
    f_end, f_start = roles.get("no_end_anchor"), roles.get("no_start_anchor")
    for body, blk, term in sites:
        gs = [g for g in guards.guards(body, blk) if not g["loop"]]
        cfg_guards = [(common.origin_config_field(g["origin"]), guards.edge_truth(g), g) for g in gs]
        narrowing = []
        has_end = False
        for f, truth, g in cfg_guards:
            if f is None:
                # a guard on something else: accepted only if it is the discriminant of an Option/Result (pattern compiled or not)
                o = g["origin"]
                if o[0] == "discr" or (o[0] == "call" and re.search(r"::is_(?:some|ok|none|err)$", o[1])):
                    continue
                narrowing.append("guard %s" % local.show(o))
            elif f == f_end and truth is True:
                has_end = True
            else:
                narrowing.append("setting `%s` == %s" % (f, truth))
        if narrowing or not has_end:
            ctx.violation("SCK-1", (body.path, rot.path),
                          "alternation order is observable whenever '$' is absent, but the self-check additionally requires %s%s: with only the end anchor disabled "
                          "a shorter alternative can win the leftmost-first search" % (", ".join(narrowing) or "nothing", "" if has_end else " and does not test the end-anchor setting"),
                          body.loc(term.get("line")))
        else:
            ctx.ok("SCK-1", "%s->%s" % (body.path, rot.path), {"guards": ["%s==%s" % (f, t) for f, t, _ in cfg_guards]}, body.loc(term.get("line")))
    # SCK-2: the per-test-case predicate
    from sa import callgraph
    reach = callgraph.CallGraph(lib).reachable([rot.path])
    preds = []
    for b in lib.bodies:
        if b.kind != "closure" or b.path not in reach:
            continue
        names = [callee_name(t) or "" for _, t in b.calls()]
        if any(re.match(r"^regex::Regex::(?:find|find_iter|find_at|is_match|shortest_match|captures)", n) for n in names):
            preds.append(b)
    if not ctx.floor("SCK-2", "closures evaluating the compiled pattern on a test case", len(preds), 1):
        return
    for b in preds:
        names = set()
        work = [b]
        while work:
            x = work.pop()
            for _, t in x.calls():
                names.add(callee_name(t) or "")
            work.extend(c for c in lib.bodies if c.kind == "closure" and c.direct_parent == x.path)
        extent = [n for n in names if re.match(r"^regex::Match::(?:as_str|start|end|range|len)$|^<regex::Match<'_> as|^regex::Match::<'h>::(?:as_str|start|end|range|len)$", n)
                  or n.endswith("shortest_match")]
        if extent:
            ctx.ok("SCK-2", b.path, {"extent_accessors": sorted(extent)}, b.loc())
        else:
            ctx.violation("SCK-2", (b.path, "match extent"),
                          "the self-check's verdict never looks at the extent of the match (calls: %s): a too-short match followed by unmatched text also passes"
                          % sorted(n for n in names if n.startswith("regex::") or n.endswith("::count")), b.loc())


def run(ctx):
    ctx.rule("ANC-1", "ccp over <RegExp as Display>::fmt (Component rendering inlined): on every abstract path the literal skeleton is "
                      "<flag><^ iff start anchor enabled><group> expr <)><$ iff end anchor enabled>, and no later replace touches skeleton characters")
    ctx.rule("ALT-1", "every construction of Expression::Alternation is dominated by sort_by_key(Reverse(len)) of the stored vector")
    ctx.rule("SCK-1", "the alternation-order self-check is guarded by the end-anchor setting alone (plus 'pattern compiled'): order is observable whenever '$' is absent")
    ctx.rule("SCK-2", "the per-test-case predicate of the self-check inspects the match extent (regex::Match accessor), not just a match count")
    ctx.assume("with '$' present a leftmost-first search on a member of the language ends at the end of the string (regex crate semantics)")
    ctx.assume("indent_regexp only adds indentation (its colour-independence is C15 IND-1; its content preservation is not decided)")
    prog = common.view(ctx, "default")
    lib = prog.lib
    roles = common.role_fields(ctx, lib)
    anc1(ctx, lib, roles)
    alt1(ctx, lib)
    self_check(ctx, lib, roles)
