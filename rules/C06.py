"""C06 — verbose mode, capturing groups and escaping are presentation only (structural clauses)."""
import re

from sa import ccp, guards, local, tables
from sa.facts import callee_name, norm
from . import common, counting, fmtmodel

ASCII_ESCAPES = {"\x0b": "\\v", "\x0c": "\\f", "\n": "\\n", "\r": "\\r", "\t": "\\t"}


def exact_escape(c, rep):
    """Does replacement value `rep` (ccp value) denote exactly the character c?"""
    if isinstance(rep, ccp.Tmpl) and rep.is_const():
        t = rep.text()
        if t == "\\" + c:
            return True
        if ASCII_ESCAPES.get(c) == t:
            return True
        m = re.match(r"^\\u\{([0-9a-fA-F]+)\}$|^\\x([0-9a-fA-F]{2})$|^\\x\{([0-9a-fA-F]+)\}$|^\\u([0-9a-fA-F]{4})$|^\\U([0-9a-fA-F]{8})$", t)
        if m:
            h = [g for g in m.groups() if g][0]
            return int(h, 16) == ord(c)
        return False
    # to_string(char::escape_unicode(c)) of the same character
    if isinstance(rep, ccp.Tmpl) and len(rep.parts) == 1 and isinstance(rep.parts[0], ccp.Hole):
        v = rep.parts[0].v
        if isinstance(v, ccp.Call) and v.callee.endswith("<impl char>::escape_unicode") and v.args and isinstance(v.args[0], ccp.CharV):
            return v.args[0].c == c
    return False


class _Muted:
    """a context that records nothing (used to compute a table without reporting another property's rule)"""

    def __init__(self, ctx):
        self._ctx = ctx

    def __getattr__(self, name):
        if name in ("ok", "violation", "undecided", "anchor_lost", "no_verdict", "rule", "assume", "note", "missing"):
            return lambda *a, **k: None
        if name == "floor":
            return lambda rid, what, n, minimum: n >= minimum
        return getattr(self._ctx, name)


def vws(ctx, prog, lib, roles, with_cas=True):
    r = fmtmodel.regexp_fmt_leaves(ctx, lib, roles)
    if not r:
        return
    b = r["body"]
    ws = common.const_table(lib, "unicode_tables::space::WHITE_SPACE")
    # in the checks that only borrow VWS (with_cas=False) the wiring of the class predicates is not this property's business: TAB-1/2 results are not reported there
    clo, pred_class, info = common.classify_predicates(ctx if with_cas else _Muted(ctx), prog, lib)
    for p, tok in (pred_class or {}).items():
        if tok == "\\s":
            ws = [(lo, hi) for lo, hi in info["pred_tab"][p][1]]
    if not ws:
        ctx.anchor_lost("VWS-1", "White_Space table")
        return
    ignored = set()
    for lo, hi in tables.normalize(ws):
        for cp in range(lo, hi + 1):
            ignored.add(chr(cp))
    ignored.add("#")
    # (a) characters already turned into ASCII escapes by the symbol escaper (every literal passes it: C11 ESCP-2)
    from .C01 import find_escaper
    covered = {}
    literal_only = {}
    for E in find_escaper(lib):
        for rs in fmtmodel.replace_sites(lib, E):
            if rs["chars"] and len(rs["chars"]) == 1 and rs["rep"][0] == "const":
                covered[rs["chars"][0]] = ccp.Tmpl([rs["rep"][1]])
                literal_only[rs["chars"][0]] = E.path
    # (b) str::replace passes of the printer itself that run (at least) when verbose mode is on
    f_verbose = roles.get("verbose")
    fi = guards.FnInfo.of(b)
    sites = fmtmodel.replace_sites(lib, b)
    unresolved = []
    for rs in sites:
        other = []
        for g in rs["guards"]:
            f = common.origin_config_field(g["origin"])
            if f == f_verbose and guards.edge_truth(g) is True:
                continue
            o = local.peel(g["origin"])
            # `if s.contains(c)` / `if !s.is_ascii()` around the replace only skip work that would change nothing
            if o[0] == "call" and (o[1].endswith("<impl str>::contains") and guards.edge_truth(g) is True
                                   or o[1].endswith("<impl str>::is_ascii") and guards.edge_truth(g) is False):
                continue
            other.append(local.show(g["origin"])[:80])
        if other:
            continue            # a pass under some other condition does not count as coverage
        if rs["chars"] is None:
            unresolved.append(rs)
            continue
        for c in rs["chars"]:
            literal_only.pop(c, None)       # a pass over the whole assembled pattern covers literals and bracket classes alike
            if rs["rep"][0] == "const":
                covered[c] = ccp.Tmpl([rs["rep"][1]])
            elif rs["rep"][0] == "escape_unicode_of_item":
                covered[c] = ccp.Tmpl([ccp.Hole(ccp.Call("std::char::methods::<impl char>::escape_unicode", [ccp.CharV(c)]))])
            else:
                covered[c] = ccp.Tmpl([ccp.Hole(ccp.Top(rs["rep"][1]))])
    # (c) a char-wise pass `s.chars().map(|c| ..).collect()` under the verbose setting, evaluated per ignored character
    undecided = {}
    d = fi.defs
    for bi, t in b.calls():
        n = callee_name(t) or ""
        if not n.endswith("Iterator::map") or len(t["args"]) != 2:
            continue
        src = d.operand(t["args"][0])
        if not (src[0] == "call" and src[1].endswith("<impl str>::chars")):
            continue
        gs = [g for g in guards.guards(b, bi) if not g["loop"]]
        if any(common.origin_config_field(g["origin"]) not in (f_verbose, None) for g in gs):
            continue
        cl = d.operand(t["args"][1])
        if not (cl[0] == "agg" and cl[1] == "closure" and lib.body(cl[2]) is not None):
            continue
        cb = lib.body(cl[2])
        mm = ccp.Machine([lib], inline=lambda nme: True, max_depth=4)
        env = ccp.Agg("closure", cb.path, None, [ccp.Top("capture") for _ in cb.captures])
        for c in sorted(ignored):
            if c in covered and exact_escape(c, covered[c]):
                continue
            try:
                ls = [l for l in mm.run(cb, [ccp.Ref(ccp.Cell(env)), ccp.CharV(c)]) if l.kind == "return"]
            except Exception:
                ls = []
            vals = [l.value if isinstance(l.value, ccp.Tmpl) else ccp.to_tmpl(l.value) for l in ls]
            if ls and all(exact_escape(c, v) for v in vals):
                covered[c] = vals[0]
                literal_only.pop(c, None)
            elif len(ls) > 1 and any(exact_escape(c, v) for v in vals):
                undecided[c] = "; ".join(a for l in ls for a, _ in l.label[:1])
    # (d) a character that only the literal escaper rewrites must also be rewritten by the bracket-class printer: class members do not pass the literal escaper
    from .C01 import class_member_renderer
    render = class_member_renderer(lib)
    for c in sorted(x for x in literal_only if x in ignored):
        got = render(c) if render else None
        if got is None:
            ctx.undecided("VWS-1", b.path, "U+%04X is rewritten for literals by %s only, and the rendering of bracket-class members could not be evaluated" % (ord(c), literal_only[c]), b.loc())
        elif not all(exact_escape(c, ccp.Tmpl([g])) for g in got):
            ctx.violation("VWS-1", (b.path, "bracket class member U+%04X" % ord(c)),
                          "under (?x) the engine ignores U+%04X also inside a bracket class; it is rewritten for literals (%s) but a member of a bracket class is printed as %s: "
                          "the class loses that member%s" % (ord(c), literal_only[c], sorted(got), " or, for '#', the rest of the line becomes a comment and the pattern is rejected" if c == "#" else ""),
                          render.closure.loc())
        else:
            ctx.ok("VWS-1", "%s:U+%04X in bracket classes" % (render.closure.path, ord(c)), {"rendered": sorted(got)}, render.closure.loc())
    nv = len([fl for fl in r["leaves"] if fl.flags.get("verbose")])
    for rs in unresolved:
        ctx.undecided("VWS-1", b.path, "cannot tell which characters the str::replace at line %s rewrites" % rs["line"], b.loc(rs["line"]))
    und = sorted(c for c in undecided if c not in covered)
    if und:
        ctx.violation("VWS-1", (b.path, "undecided coverage"), "cannot show that %s are escaped in verbose mode: the char-wise pass decides by %s, which is not "
                      "a predicate this analysis can evaluate (the engine ignores exactly char::is_whitespace and '#')"
                      % (["U+%04X" % ord(c) for c in und], undecided[und[0]][:120]), b.loc())
    missing = sorted(c for c in ignored if c not in covered and c not in undecided)
    inexact = sorted(c for c in ignored if c in covered and not exact_escape(c, covered[c]))
    if missing:
        ctx.violation("VWS-1", (b.path, "coverage"), "under (?x) the engine ignores White_Space and '#' but verbose output never rewrites %s"
                      % ["U+%04X" % ord(c) for c in missing], b.loc())
    groups = {}
    for c in inexact:
        groups.setdefault(ccp.show(covered[c]), []).append(c)
    for rep, cs in groups.items():
        ctx.violation("VWS-2", (b.path, "replacement " + rep.strip("`")),
                      "%d whitespace character(s) (%s) are rewritten to %s, which does not denote exactly that character (a class widens the language: "
                      "'a\\u{a0}b' would also match 'a b')" % (len(cs), ", ".join("U+%04X" % ord(c) for c in cs[:6]) + (" ..." if len(cs) > 6 else ""), rep), b.loc())
    if not missing and not inexact and not und:
        ctx.ok("VWS-1", b.path + ":coverage", {"ignored_under_x": len(ignored), "rewritten": len([c for c in ignored if c in covered]),
                                                "replace_passes": len(sites), "verbose_paths": nv}, b.loc())
        for c in sorted(ignored):
            ctx.ok("VWS-2", "%s:U+%04X" % (b.path, ord(c)), {"rewritten_to": ccp.show(covered[c])}, b.loc())
    ctx.floor("VWS-1", "verbose paths of RegExp::fmt", nv, 24)
    if with_cas:
        fmtmodel.cas1(ctx, lib, roles)


def group_printers(lib):
    """functions/closures that construct *ParenthesizedExpression components"""
    out = []
    for b in lib.bodies:
        if b.derived or b.path.startswith("component::") or b.path.startswith("<component::"):
            continue
        n = 0
        for _, blk in b.iter_blocks():
            for s in blk["stmts"]:
                if s["k"] == "assign" and s["rv"]["k"] == "aggregate" and s["rv"].get("agg") == "adt" \
                        and norm(s["rv"]["adt"]) == "component::Component" and "ParenthesizedExpression" in s["rv"]["variant"]:
                    n += 1
        if n:
            out.append((b, n))
    return out


def grp1(ctx, lib, roles):
    sites = group_printers(lib)
    total = sum(n for _, n in sites)
    # semantic minimum: a capturing and a non-capturing construction (helpers may serve any number of printers)
    if not ctx.floor("GRP-1", "constructions of (Un)CapturedParenthesizedExpression", total, 2):
        return {}
    deciders = {}
    for b, n in sites:
        args = None
        m = ccp.Machine([lib], inline=fmtmodel.component_inline, max_leaves=8192)
        try:
            leaves = m.run(b)
        except Exception as e:
            ctx.undecided("GRP-1", b.path, str(e), b.loc())
            continue
        grouped = []
        for l in leaves:
            texts = []
            vals = [e["value"] for e in l.events if e["k"] == "write_fmt"]
            if l.kind == "return" and isinstance(l.value, ccp.Tmpl):
                vals.append(l.value)
            for v in vals:
                v = fmtmodel.innermost_tmpl(v)
                if isinstance(v, ccp.Tmpl):
                    t = fmtmodel.strip_sgr("".join(p if isinstance(p, str) else "\x00" for p in v.parts)).replace("\n", "")
                    texts.append(t)
            kinds = set()
            for t in texts:
                for mm in re.finditer(r"\((\?:)?\x00\)", t):
                    kinds.add("uncap" if mm.group(1) else "cap")
            if kinds:
                grouped.append((l, kinds))
        if not grouped:
            ctx.undecided("GRP-1", b.path, "no abstract path prints a group although the function constructs one", b.loc())
            continue
        # find the single boolean atom that decides the kind
        cand = None
        for l, kinds in grouped:
            if len(kinds) != 1:
                ctx.violation("GRP-1", (b.path, "mixed kinds"), "one path prints both capturing and non-capturing groups", b.loc())
                cand = False
                break
            atoms = {k for k, v in l.facts.items() if isinstance(v, ccp.Const) and isinstance(v.v, bool)
                     and v.v == (list(kinds)[0] == "cap")}
            cand = atoms if cand is None else (cand & atoms)
        if cand is False:
            continue
        # an atom qualifies only if it is decided on every grouped leaf (intersection above) and flips the kind
        cand = [k for k in (cand or []) if k[0] in ("sym", "fld")]
        if len(cand) != 1:
            ctx.violation("GRP-1", (b.path, "group kind"), "the kind of group is not decided by one boolean (candidates: %s): with capturing groups requested "
                          "some group would be non-capturing or vice versa" % [str(c) for c in cand], b.loc())
            continue
        deciders[b.path] = cand[0]
        ctx.ok("GRP-1", b.path, {"grouped_paths": len(grouped), "decided_by": _atom_str(cand[0])}, b.loc())
    return deciders


def _atom_str(k):
    if k[0] == "sym":
        return k[1]
    if k[0] == "fld":
        return _atom_str(k[1]) + "." + k[2]
    return str(k)


def vrb1(ctx, lib):
    """VRB-1: for every printing component the verbose rendering is the non-verbose rendering plus line breaks: same literal text, same holes in the same order.
    (Sibling agreement of the arms of Component's Display; a verbose arm that prints {min} where the plain arm prints {min,max} changes the language.)"""
    comp = "component::Component"
    pl = [b for b in lib.bodies if b.impl_trait == "std::fmt::Display" and b.impl_self == comp and b.path.endswith("::fmt")]
    if len(pl) != 1:
        ctx.anchor_lost("VRB-1", "Display of Component")
        return
    pl = pl[0]
    spec = common.spec("roles")
    adt = lib.adts.get(comp)
    vnames = [v["name"] for v in adt["variants"]]
    me = ccp.Sym("self")
    leaves = [l for l in ccp.Machine([lib], inline=fmtmodel.component_inline).run(pl, [me, ccp.Sym("f")]) if l.kind == "return"]
    groups = {}
    for l in leaves:
        vi = l.fact(ccp.Discr(me))
        if not isinstance(vi, int) or vi >= len(vnames):
            continue
        vn = vnames[vi]
        if vn not in spec["component_verbose_field"]:
            continue
        vf = "self.%s.%d" % (vn, spec["component_verbose_field"][vn])
        cf = "self.%s.%d" % (vn, spec.get("component_const_field", {}).get(vn, -1))
        verbose = None
        rest = []
        for a, v in l.label:
            if a == vf:
                verbose = (v == "True")
            elif a == cf or a == "discr(self)":
                continue
            else:
                rest.append((a, v))
        w = [e for e in l.events if e["k"] == "write_fmt"]
        if len(w) != 1 or not isinstance(w[0]["value"], ccp.Tmpl) or verbose is None:
            continue
        parts = w[0]["value"].parts
        key = tuple(("s", p_.replace("\n", "")) if isinstance(p_, str) else ("h", p_.v.key()) for p_ in parts)
        key = tuple(k for k in key if k != ("s", ""))
        groups.setdefault((vn, tuple(rest)), {}).setdefault(verbose, set()).add(key)
    n = 0
    for (vn, rest), d in sorted(groups.items()):
        if True not in d or False not in d:
            continue
        n += 1
        if d[True] == d[False] and len(d[False]) == 1:
            ctx.ok("VRB-1", "Component::%s|%s" % (vn, ";".join("%s=%s" % kv for kv in rest)), None, pl.loc())
        else:
            def sh(ks):
                return sorted("".join(v if k == "s" else "{}" for k, v in key) for key in ks)
            ctx.violation("VRB-1", (pl.path, "Component::" + vn), "in verbose mode Component::%s prints %s, without it %s (line breaks aside): the verbose pattern is a different "
                          "regular expression [%s]" % (vn, sh(d[True]), sh(d[False]), ", ".join("%s=%s" % kv for kv in rest)), pl.loc())
    ctx.floor("VRB-1", "component arms with a verbose and a non-verbose rendering", n, len(spec["component_verbose_field"]))


def run(ctx):
    ctx.rule("VWS-1", "on every verbose path of RegExp::fmt each character the engine ignores under (?x) (White_Space per the table proven equal to regex's, and '#') "
                      "is rewritten: by a str::replace wrapper of the printer or earlier by the symbol escaper")
    ctx.rule("VWS-2", "each such rewrite denotes exactly the character (backslash+char, the matching single-letter escape, or a hex/\\u{..} escape of the same value); "
                      "a class token is a widening")
    ctx.rule("CAS-1", "the flag group is (?ix)/(?i)/(?x)/empty exactly per the case and verbose settings")
    ctx.rule("GRP-1", "in every function that prints a group the kind (capturing / non-capturing) is decided by one boolean on all paths")
    ctx.rule("PLB-1", "flag plumbing: see rules/plumbing.py (value-flow provenance of every positional bool)")
    ctx.assume("regex-syntax in verbose mode ignores exactly char::is_whitespace characters and '#' comments (read in ast/parse.rs)")
    prog = common.view(ctx, "default")
    lib = prog.lib
    roles = common.role_fields(ctx, lib, want=common.FMT_ROLES + ("escape", "surrogate"))
    vws(ctx, prog, lib, roles)
    deciders = grp1(ctx, lib, roles)
    ctx.rule("VRB-1", "every printing component renders the same text with and without verbose mode, line breaks aside (sibling arms of Component's Display)")
    vrb1(ctx, lib)
    # PRC-3 (shared with C02): the outer group around a top-level alternation does not depend on the verbose setting (or any other presentation setting)
    from .C02 import prc3
    ctx.rule("PRC-3", "RegExp::fmt wraps the expression in an outer group iff it is an alternation, for every valuation of the presentation settings incl. verbose")
    prc3(ctx, lib, roles)
    counting.rules(ctx)
    counting.cnt1(ctx, lib)
    counting.cnt2(ctx, lib)
    counting.chr1(ctx, lib)
    counting.fch1(ctx, lib)
    counting.scp1(ctx, lib)
    try:
        from . import plumbing
    except ImportError:
        plumbing = None
    if plumbing is not None:
        plumbing.check(ctx, lib, roles, deciders, want=("capture", "verbose", "colour", "escape", "surrogate"))
