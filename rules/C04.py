"""C04 — case-insensitive option (flag and guard clauses; std/regex case-table skew)."""
import os
import re
import subprocess

from sa import ccp, guards, local
from sa.facts import callee_name, cval, norm
from . import common, fmtmodel


def find_lowercaser(lib):
    """closure/fn whose body calls str::to_lowercase"""
    return [b for b in lib.bodies if any((callee_name(t) or "").endswith("<impl str>::to_lowercase") for _, t in b.calls())]


def std_lowercase_table():
    """Parse the single-scalar lower-casing table of the (nightly) std source: dict cp -> lower cp.  Returns (table, version) or (None, why)."""
    try:
        sysroot = subprocess.run(["rustc", "+nightly", "--print", "sysroot"], capture_output=True, text=True).stdout.strip()
    except Exception as e:
        return None, str(e)
    f = os.path.join(sysroot, "lib/rustlib/src/rust/library/core/src/unicode/unicode_data.rs")
    if not os.path.exists(f):
        return None, "std source not installed"
    src = open(f).read()
    mver = re.search(r"UNICODE_VERSION: \(u8, u8, u8\) = \((\d+), (\d+), (\d+)\)", src)
    m = re.search(r"static LOWERCASE_LUT: L1Lut = L1Lut \{(.*?)\n    \};", src, re.S)
    if not m:
        return None, "LOWERCASE_LUT not found (std table layout changed)"
    body = m.group(1)
    planes = re.split(r"L2Lut \{", body)[1:]
    table = {}
    for plane, blk in enumerate(planes):
        ms = re.search(r"singles: &\[(.*?)\],\s*multis", blk, re.S)
        if not ms:
            return None, "singles not found"
        for e in re.finditer(r"\(Range::(step_by_1|step_by_2|singleton)\((0x[0-9a-f]+)(?:\.\.=(0x[0-9a-f]+))?\), (-?\d+)\)", ms.group(1)):
            kind, a, b_, delta = e.group(1), int(e.group(2), 16), e.group(3), int(e.group(4))
            b_ = int(b_, 16) if b_ else a
            step = 2 if kind == "step_by_2" else 1
            for low in range(a, b_ + 1, step):
                out = (low + delta) & 0xFFFF
                table[(plane << 16) | low] = (plane << 16) | out
    for cp in range(0x41, 0x5B):
        table[cp] = cp + 32
    ver = ".".join(mver.groups()) if mver else "?"
    return table, ver


def regex_fold_orbits(prog):
    rs = prog.crate("regex_syntax.lib")
    if rs is None:
        return None
    for path, c in rs.consts.items():
        if path.endswith("CASE_FOLDING_SIMPLE"):
            v = cval(c.get("value"))
            if isinstance(v, list):
                orb = {}
                for ch, partners in v:
                    orb[ord(ch)] = {ord(x) for x in partners}
                return orb
    return None


def run(ctx):
    ctx.rule("CAS-1", "ccp over RegExp::fmt: the flag group is (?ix)/(?i)/(?x)/empty exactly per the case and verbose settings on every abstract path")
    ctx.rule("CAS-2", "test cases are lower-cased only under the case-insensitivity setting, and the lower-cased string is used only if it has as many chars as the original; "
                      "all other paths keep the original")
    ctx.rule("CAS-3", "a string produced by std's case tables becomes pattern text under (?i) only if the regex engine's own simple case folding maps it back to the original: "
                      "either the two tables agree on every scalar (std source table vs regex_syntax::CASE_FOLDING_SIMPLE), or the lower-cased value is guarded by an engine round-trip")
    ctx.assume("the std case tables of the nightly source equal those of the stable toolchain that builds grex (same Unicode version)")
    prog = common.view(ctx, "default")
    lib = prog.lib
    roles = common.role_fields(ctx, lib, want=common.FMT_ROLES)
    fmtmodel.cas1(ctx, lib, roles)
    from . import memo
    memo.rules(ctx)
    memo.check(ctx, lib)
    lows = find_lowercaser(lib)
    if not ctx.floor("CAS-2", "functions calling str::to_lowercase", len(lows), 1):
        return
    f_ci = roles.get("ignore_case")
    guarded_by_engine = True
    for lb in lows:
        it = ccp.Sym("it")
        args = [ccp.Sym("env"), it] if lb.kind == "closure" else None
        leaves = ccp.Machine([lib]).run(lb, args)
        okc = True
        # per-item decisions: (value stored for the item, the facts about that item, how the original item prints)
        decisions = []
        if lb.kind == "closure":
            for l in leaves:
                if l.kind == "return":
                    decisions.append((l.value, list(l.label), it))
        else:
            # loop form: every push of a per-item value into the new list, judged with the facts about that iteration's item
            for l in leaves:
                if l.kind != "return":
                    continue
                for e in l.events:
                    if e["k"] == "call" and e["callee"].endswith("Vec::<T, A>::push") and len(e["args"]) == 2:
                        v = e["args"][1]
                        ids = re.findall(r"#(\w+@bb\d+#\d+)", ccp.show(v))
                        if not ids:
                            continue
                        decisions.append((v, [(a, val) for a, val in l.label if ids[0] in a], ids[0]))
            seen_d = set()
            uniq = []
            for v, lab, item in decisions:
                k_ = (ccp.show(v), tuple(lab))
                if k_ not in seen_d:
                    seen_d.add(k_)
                    uniq.append((v, lab, item))
            decisions = uniq
        if not decisions:
            ctx.undecided("CAS-2", lb.path, "cannot find the per-test-case decision (closure result or push into the new list)", lb.loc())
            continue
        for v, label, item in decisions:
            derived = "to_lowercase" in ccp.show(v)
            if derived:
                cnt = [a for a, val in label if a.startswith("Eq(") and a.count("Iterator>::count(") == 2 and "to_lowercase" in a and val == "True"]
                if not cnt:
                    okc = False
                    ctx.violation("CAS-2", (lb.path, "length guard"), "a lower-cased test case is used without checking that it has as many chars as the original "
                                  "('İ' lower-cases to two chars and would no longer match)", lb.loc())
                # the guard is itself the engine round trip (head of the atom is a regex-crate call or is_ok_and/is_some_and over one), not merely an atom mentioning one
                eng = [a for a, val in label if val == "True" and "to_lowercase" in a
                       and re.match(r"^(?:regex::Regex::(?:is_match|find)\w*|std::result::Result::<T, E>::is_ok_and|std::option::Option::<T>::is_some_and)\(", a)
                       and re.search(r"regex::Regex(?:Builder)?::(?:new|build)", a)]
                crate_guard = [a for a, val in label if val == "True" and re.match(r"^[a-z_:A-Za-z0-9<>]+\(", a)
                               and lib.body(a.split("(")[0]) is not None and engine_roundtrip(lib, lib.body(a.split("(")[0]))]
                if not eng and not crate_guard:
                    guarded_by_engine = False
            else:
                txt = ccp.show(v)
                orig_ok = False
                if isinstance(item, ccp.V):
                    orig_ok = (isinstance(v, ccp.Tmpl) and len(v.parts) == 1 and isinstance(v.parts[0], ccp.Hole) and v.parts[0].v.key() == item.key()) \
                        or (isinstance(v, ccp.Call) and v.callee.endswith("clone") and v.args and v.args[0].key() == item.key())
                else:
                    orig_ok = re.fullmatch(r"`\{[^{}]*#%s(?:\.Some\.0)?\}`" % re.escape(item), txt) is not None \
                        or re.fullmatch(r"<[^>]*Clone>::clone\([^()]*\([^()]*\([^()]*\)\)#%s(?:\.Some\.0)?\)" % re.escape(item), txt) is not None
                if not orig_ok:
                    okc = False
                    ctx.violation("CAS-2", (lb.path, "fallback"), "a path returns %s instead of the original test case" % txt[:120], lb.loc())
                elif not any("to_lowercase" in a for a, _ in label):
                    # the original is kept without its lower-cased form having been looked at: only a comparison with that form (other length, engine cannot fold it back)
                    # justifies keeping a test case that differs from it
                    okc = False
                    if not any(re.search(r"is_uppercase|is_lowercase", a) for a, _ in label):
                        ctx.undecided("CAS-2", lb.path, "a test case is kept as it is on a path decided by %s, without a comparison with its lower-cased form"
                                      % (", ".join("%s=%s" % (a[:60], val) for a, val in label) or "nothing"), lb.loc())
                        continue
                    ctx.violation("CAS-2", (lb.path, "kept without comparison"), "a test case is kept as it is on a path that never looks at its lower-cased form (decided by %s): a string that "
                                  "lower-casing would change - e.g. a titlecase letter, which is not `uppercase` - stays apart from its case variants, so test cases that differ only by "
                                  "case no longer collapse" % (", ".join("%s=%s" % (a[:60], val) for a, val in label) or "nothing"), lb.loc())
        if okc:
            ctx.ok("CAS-2", lb.path, {"paths": len(leaves)}, lb.loc())
        # call chain guarded by the setting
        root = lib.body(lb.parent) if lb.kind == "closure" else lb
        for body, blk, term in guards.call_sites(lib, root.path):
            gs = [g for g in guards.guards(body, blk) if not g["loop"]]
            if len(gs) == 1 and common.origin_config_field(gs[0]["origin"]) == f_ci and guards.edge_truth(gs[0]) is True:
                ctx.ok("CAS-2", "%s->%s under the case-insensitivity setting" % (body.path, root.path), None, body.loc(term.get("line")))
            else:
                ctx.violation("CAS-2", (body.path, root.path), "lower-casing is guarded by %s, expected only `%s` == true" % ([local.show(g["origin"]) for g in gs], f_ci),
                              body.loc(term.get("line")))
    # CAS-3
    table, ver = std_lowercase_table()
    orb = regex_fold_orbits(prog)
    if table is None or orb is None:
        ctx.note("CAS-3 not evaluated: %s" % (ver if table is None else "regex-syntax folding table not in facts"))
        return
    skew = []
    for cp, low in sorted(table.items()):
        if low == cp:
            continue
        if low in orb.get(cp, ()) or cp in orb.get(low, ()):
            continue
        skew.append((cp, low))
    ctx.extra["std_unicode_version"] = ver
    ctx.extra["std_single_lowercase_mappings"] = len(table)
    ctx.extra["case_table_skew"] = ["U+%04X -> U+%04X" % s for s in skew[:80]]
    ctx.extra["case_table_skew_count"] = len(skew)
    lb = lows[0]
    if not skew:
        ctx.ok("CAS-3", "std %s vs regex_syntax case folding" % ver, {"mappings_compared": len(table), "skew": 0})
    elif guarded_by_engine:
        ctx.ok("CAS-3", lb.path + ":engine round-trip guard", {"skew_neutralised": len(skew), "std_unicode": ver})
    else:
        ctx.violation("CAS-3", (lb.path, "to_lowercase"),
                      "std (Unicode %s) lower-cases %d scalar(s) to a scalar that the locked regex-syntax does not fold back (e.g. U+%04X -> U+%04X): "
                      "with --ignore-case such a test case is replaced by a string the pattern (?i)... does not match; the lower-cased value is not validated against "
                      "the engine" % (ver, len(skew), skew[0][0], skew[0][1]), lb.loc())


def engine_roundtrip(lib, hb):
    """helper (lower, original) -> bool that compiles a case-insensitive pattern from one argument and matches the other"""
    names = {callee_name(t) or "" for _, t in hb.calls()}
    for c in lib.bodies:
        if c.kind == "closure" and c.parent == hb.path:
            names |= {callee_name(t) or "" for _, t in c.calls()}
    has_new = any(n in ("regex::Regex::new", "regex::RegexBuilder::new", "regex::RegexBuilder::build") for n in names)
    has_match = any(n.startswith("regex::Regex::is_match") or n.startswith("regex::Regex::find") for n in names)
    ci = False
    d = local.Defs(hb)
    for _, blk in hb.iter_blocks():
        for s in blk["stmts"]:
            if s["k"] == "assign":
                for x in local.walk(d.rvalue(s["rv"])):
                    v = local.const_value(x)
                    if isinstance(v, (bytes, bytearray)) and b"(?i)" in bytes(v):
                        ci = True
                    if isinstance(v, str) and "(?i)" in v:
                        ci = True
    if any(n.endswith("RegexBuilder::case_insensitive") for n in names):
        ci = True
    if not (has_new and has_match and ci):
        return False
    # every path of the helper answers `true` only because the two strings are equal, or hands back the engine's own verdict
    try:
        params = [ccp.Sym("p%d" % i) for i in range(1, hb.arg_count + 1)]
        leaves = ccp.Machine([lib]).run(hb, params)
    except Exception:
        return False
    for l in leaves:
        if l.kind != "return":
            return False
        v = l.value
        if isinstance(v, ccp.Const) and v.v is False:
            continue
        if isinstance(v, ccp.Const) and v.v is True:
            if any(re.match(r"^(?:Eq\(p\d, p\d\)|.*PartialEq.*::eq\(p\d, p\d\))$", a) and val == "True" for a, val in l.label):
                continue
            return False
        txt = ccp.show(v)
        if isinstance(v, ccp.Call) and re.search(r"is_ok_and|is_some_and|Regex::is_match|map_or", v.callee) and "regex::Regex::new" in txt:
            continue
        return False
    return True
