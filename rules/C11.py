"""C11 — non-ASCII escaping (constant/structural clauses)."""
import re

from sa import ccp, guards, local
from sa.facts import callee_name, norm
from . import common
from .C01 import find_escaper, find_escape_entry

ASTRAL = (0x10000, 0x10FFFF)


def find_escape_fn(lib):
    """per-character escaper: (self, char, bool) -> String calling char::escape_unicode"""
    out = []
    for b in lib.bodies:
        if b.kind != "assoc_fn" and b.kind != "fn":
            continue
        if "char" in b.sig_inputs and "bool" in b.sig_inputs and b.sig_output == "std::string::String" \
                and any((callee_name(t) or "").endswith("<impl char>::escape_unicode") for _, t in b.calls()):
            out.append(b)
    return out


def char_set_of_atoms(leaf, cvar):
    """Interval (lo, hi) of code points for which the atoms of this leaf about `cvar` hold, if the leaf constrains cvar through
    one Range/RangeInclusive::contains or comparisons with constants; returns (lo, hi, description) or None."""
    lo, hi = 0, 0x10FFFF
    desc = []
    found = False
    for k, v in leaf.facts.items():
        if not isinstance(v, ccp.Const) or not isinstance(v.v, bool):
            continue
        if k[0] == "call" and re.search(r"std::ops::Range(?:Inclusive)?::<Idx>::contains$", k[1]):
            rng = k[2][0]
            arg = k[2][1]
            if arg != cvar.key():
                continue
            if rng[0] != "agg":
                return None
            label = rng[2]
            vals = [f for f in rng[4:]]
            chars = [f[1] for f in vals if f and f[0] == "ch"]
            if len(chars) < 2:
                return None
            a, b = ord(chars[0]), ord(chars[1])
            incl = "RangeInclusive" in (label or "")
            if not v.v:
                return None
            lo, hi = max(lo, a), min(hi, b if incl else b - 1)
            desc.append("%s %s..%s%s" % ("RangeInclusive" if incl else "Range (half-open)", "U+%X" % a, "=" if incl else "", "U+%X" % b))
            found = True
        elif k[0] == "bin" and k[1] in ("Lt", "Le", "Gt", "Ge") and (k[2] == cvar.key() or k[3] == cvar.key()):
            op = k[1]
            other = k[3] if k[2] == cvar.key() else k[2]
            if other[0] != "ch":
                return None
            n = ord(other[1])
            if k[3] == cvar.key():
                op = {"Lt": "Gt", "Le": "Ge", "Gt": "Lt", "Ge": "Le"}[op]
            if not v.v:
                op = {"Lt": "Ge", "Le": "Gt", "Gt": "Le", "Ge": "Lt"}[op]
            if op == "Gt":
                lo = max(lo, n + 1)
            elif op == "Ge":
                lo = max(lo, n)
            elif op == "Lt":
                hi = min(hi, n - 1)
            elif op == "Le":
                hi = min(hi, n)
            desc.append("%s U+%X" % (op, n))
            found = True
    if not found:
        return None
    return lo, hi, "; ".join(desc)


def run(ctx):
    ctx.rule("RNG-1", "the code points sent to the surrogate-pair helper (under not-ASCII and surrogates requested) are exactly U+10000..=U+10FFFF")
    ctx.rule("ESCP-1", "ccp dispatch of the per-character escaper: ASCII unchanged; astral+surrogates -> helper mapping UTF-16 units through \\u{<hex>}; otherwise char::escape_unicode")
    ctx.rule("ESCP-3", "the non-ASCII pass escapes char by char only: no str::escape_unicode / escape_default / escape_debug of a whole stored string")
    ctx.rule("ESCP-2", "every literal is escaped before printing: the literal printer calls the symbol escaper on the grapheme or on each of its repetitions on every path, "
                       "with the Literal's own two flags; the escaper calls the non-ASCII pass iff its first flag, which maps every char of every stored string")
    ctx.assume("char::escape_unicode yields \\u{<lower hex>} (documented); pure-ASCII output of the class printer and re-decodability are not decided")
    prog = common.view(ctx, "default")
    lib = prog.lib
    roles = common.role_fields(ctx, lib, want=("escape", "surrogate"))
    # PLB-1 (shared with C06): the two positional flags of the escaper only ever carry their own setting, at every call site including the recursive one
    from . import plumbing
    ctx.rule("PLB-1", "value-flow provenance: the escape flag and the surrogate flag of the symbol escaper receive only their own setting (no crossed positional bools)")
    plumbing.check(ctx, lib, roles, None, want=("escape", "surrogate"))
    # PRC-1/2 (shared with C02): an escaped unit of several \u{..} sequences under a quantifier keeps its group
    from .C02 import prc1, prc2
    ctx.rule("PRC-1", "precedence table: Alternation < Concatenation <= Literal < Repetition")
    ctx.rule("PRC-2", "an operand is parenthesised iff its precedence is lower than its parent's and it is not a single code point (one grapheme can be several escape sequences)")
    pf_ = prc1(ctx, lib)
    if pf_ is not None:
        prc2(ctx, lib, pf_)
    fns = find_escape_fn(lib)
    if len(fns) != 1:
        ctx.anchor_lost("ESCP-1", "per-character escaper (found %d)" % len(fns))
        return
    E = fns[0]
    me, c, sur = ccp.Sym("self"), ccp.Sym("c"), ccp.Sym("sur")
    ci = E.sig_inputs.index("char")
    bi_ = E.sig_inputs.index("bool")
    args = [me, None, None]
    args[ci] = c
    args[bi_] = sur
    leaves = ccp.Machine([lib]).run(E, args)
    ascii_key = None
    n_ok = 0
    helper = None
    for l in leaves:
        if l.kind != "return":
            ctx.undecided("ESCP-1", E.path, "non-returning path", E.loc())
            continue
        isascii = None
        for k, v in l.facts.items():
            if k[0] == "call" and k[1].endswith("<impl char>::is_ascii") and k[2] == (c.key(),):
                isascii = v.v
        s = l.fact(sur)
        val = l.value
        shown = ccp.show(val)
        kind = None
        if isinstance(val, ccp.Tmpl) and len(val.parts) == 1 and isinstance(val.parts[0], ccp.Hole):
            hv = val.parts[0].v
            if hv.key() == c.key():
                kind = "identity"
            elif isinstance(hv, ccp.Call) and hv.callee.endswith("<impl char>::escape_unicode") and hv.args and hv.args[0].key() == c.key():
                kind = "escape_unicode"
        if isinstance(val, ccp.Call) and lib.body(val.callee) is not None and any(a.key() == c.key() for a in val.args):
            kind = "helper"
            helper = lib.body(val.callee)
        site = "%s|%s" % (E.path, ";".join("%s=%s" % kv for kv in l.label))
        if isascii is True:
            if kind == "identity":
                n_ok += 1
                ctx.ok("ESCP-1", site, {"result": "c unchanged"}, E.loc())
            else:
                ctx.violation("ESCP-1", (E.path, "ascii"), "an ASCII character is rendered as %s" % shown, E.loc())
        elif isascii is False:
            if kind == "helper":
                if s is not True:
                    ctx.violation("ESCP-1", (E.path, "surrogate flag"), "the surrogate helper is used although surrogates were not requested (%s)" % (l.label,), E.loc())
                    continue
                rng = char_set_of_atoms(l, c)
                if rng is None:
                    ctx.undecided("RNG-1", E.path, "cannot read the astral test on path %s" % (l.label,), E.loc())
                    continue
                lo, hi, desc = rng
                if (lo, hi) == ASTRAL:
                    ctx.ok("RNG-1", E.path + ":astral test", {"range": "U+%X..=U+%X" % (lo, hi), "as_written": desc}, E.loc())
                    n_ok += 1
                else:
                    miss = []
                    if lo > ASTRAL[0]:
                        miss.append("U+%X..U+%X" % (ASTRAL[0], lo - 1))
                    if hi < ASTRAL[1]:
                        miss.append("U+%X..U+%X" % (hi + 1, ASTRAL[1]))
                    extra = "U+%X..U+%X" % (lo, ASTRAL[0] - 1) if lo < ASTRAL[0] else ""
                    ctx.violation("RNG-1", (E.path, "astral range"),
                                  "code points converted to surrogate pairs are U+%X..=U+%X (%s); documented: U+10000..=U+10FFFF; not converted: %s%s"
                                  % (lo, hi, desc, ", ".join(miss) or "-", ("; wrongly converted: " + extra) if extra else ""), E.loc())
            elif kind == "escape_unicode":
                n_ok += 1
                ctx.ok("ESCP-1", site, {"result": "char::escape_unicode(c)"}, E.loc())
            else:
                ctx.violation("ESCP-1", (E.path, "non-ascii"), "a non-ASCII character is rendered as %s" % shown, E.loc())
        else:
            ctx.undecided("ESCP-1", E.path, "a path does not test is_ascii: %s" % (l.label,), E.loc())
    ctx.floor("ESCP-1", "dispatch paths of the per-character escaper", n_ok, 3)
    # helper: units of encode_utf16 -> "\u{" {:x} "}"
    if helper is None:
        ctx.violation("ESCP-1", (E.path, "no surrogate path"), "no path renders astral code points as surrogate pairs", E.loc())
    else:
        d = local.Defs(helper)
        r = d.local(0)
        okh = False
        if r[0] == "call" and r[1].endswith("::join") and any(x[0] == "call" and x[1].endswith("<impl char>::encode_utf16") for x in local.walk(r)):
            clos = [x for x in local.walk(r) if x[0] == "agg" and x[1] == "closure"]
            if clos and lib.body(clos[0][2]) is not None:
                cb = lib.body(clos[0][2])
                ls = ccp.Machine([lib]).run(cb, [ccp.Sym("env"), ccp.Sym("unit")])
                if len(ls) == 1 and isinstance(ls[0].value, ccp.Tmpl):
                    parts = ls[0].value.parts
                    if len(parts) == 3 and parts[0] == "\\u{" and parts[2] == "}" and isinstance(parts[1], ccp.Hole) and parts[1].fmt == "lower_hex" \
                            and parts[1].v.key() == ccp.Sym("unit").key():
                        okh = True
                sep = local.peel(r[2][1]) if len(r[2]) > 1 else None
                if sep is not None and local.const_value(sep) != "":
                    okh = False
        if okh:
            ctx.ok("ESCP-1", helper.path + ":\\u{hex} per UTF-16 unit", None, helper.loc())
        else:
            ctx.violation("ESCP-1", (helper.path, "unit template"), "surrogate helper does not join encode_utf16 units rendered as \\u{<lower hex>}", helper.loc())

    # ---- ESCP-2
    hits = find_escape_entry(lib)
    if len(hits) != 1:
        ctx.anchor_lost("ESCP-2", "symbol escaper")
        return
    S = hits[0]
    # (a) S calls the non-ascii pass iff its first bool parameter
    passes = []
    for bi, t in S.calls():
        n = callee_name(t) or ""
        cb = lib.body(n)
        if cb is not None and cb is not S and E.path in reachable_names(lib, cb) and S.path not in reachable_names(lib, cb):
            # (a helper through which S calls itself for the nested repetitions is not the non-ASCII pass)
            passes.append((bi, t, cb))
    if not ctx.floor("ESCP-2", "calls of the non-ASCII pass in the symbol escaper", len(passes), 1):
        return
    bool_params = [i + 1 for i, ty in enumerate(S.sig_inputs) if ty == "bool"]
    for bi, t, cb in passes:
        gs = [g for g in guards.guards(S, bi) if not g["loop"]]
        okg = len(gs) == 1 and local.peel(gs[0]["origin"]) == ("param", bool_params[0]) and guards.edge_truth(gs[0]) is True
        fi = guards.FnInfo.of(S)
        # and skipping it when the flag is false is the only alternative: the call post-dominates the true edge
        if okg:
            # second flag forwarded unchanged
            fw = [local.peel(fi.defs.operand(a)) for a in t["args"]]
            if ("param", bool_params[1]) in fw:
                ctx.ok("ESCP-2", S.path + ":non-ASCII pass iff escape flag", {"callee": cb.path}, S.loc(t.get("line")))
            else:
                ctx.violation("ESCP-2", (S.path, "surrogate flag"), "the surrogate flag is not forwarded to the non-ASCII pass", S.loc(t.get("line")))
        else:
            ctx.violation("ESCP-2", (S.path, "guard of non-ASCII pass"), "non-ASCII pass guarded by %s" % [local.show(g["origin"]) for g in gs], S.loc(t.get("line")))
        # the pass maps every char of every stored string through E
        names = reachable_names(lib, cb)
        chain_ok = E.path in names and any(x.endswith("<impl str>::chars") for x in all_callees(lib, cb))
        if chain_ok:
            ctx.ok("ESCP-2", cb.path + ":maps chars() of each stored string through the escaper", None, cb.loc())
        else:
            ctx.violation("ESCP-2", (cb.path, "char map"), "the non-ASCII pass does not map str::chars() through the per-character escaper", cb.loc())
        # ESCP-3: no whole-string escaper in the pass: str::escape_unicode / escape_default / escape_debug also rewrite the ASCII part of a stored string, i.e. the
        # backslash escapes the symbol escaper has just produced (`\\.` becomes `\\u{5c}\\u{2e}`, a literal backslash followed by any character)
        whole = sorted(x for x in all_callees(lib, cb) if re.search(r"<impl str>::escape_(?:unicode|default|debug)$", x))
        if whole:
            ctx.violation("ESCP-3", (cb.path, "whole-string escaper"), "the non-ASCII pass hands a whole stored string to %s: its ASCII characters are escaped as well, including the "
                          "backslash escapes written just before (`\\.` becomes `\\u{5c}\\u{2e}`), so the pattern no longer matches the test case" % whole[0], cb.loc())
        else:
            ctx.ok("ESCP-3", cb.path + ":no whole-string escaper", None, cb.loc())
    literal_printer_escapes(ctx, lib, S)


def literal_printer_escapes(ctx, lib, S):
    """ESCP-2 (b): every literal printer (a body that applies the symbol escaper S and prints graphemes) escapes on every path before printing, and forwards the
    Literal's two flags in order.  Shared with C01/C02/C07: a path that skips the escaper prints metacharacters raw."""
    # (b) the literal printer escapes on every path, with the Literal's flags
    printers = [b for b in lib.bodies if b.kind in ("closure", "fn", "assoc_fn") and b is not S and any(callee_name(t) == S.path for _, t in b.calls())
                and any((callee_name(t) or "").endswith("to_string") for _, t in b.calls())]
    if not ctx.floor("ESCP-2", "literal printers (escape, then print each grapheme)", len(printers), 1):
        return
    for pb in printers:
        fi = guards.FnInfo.of(pb)
        ts = [bi for bi, t in pb.calls() if (callee_name(t) or "").endswith("to_string")]
        esc_blocks = [bi for bi, t in pb.calls() if callee_name(t) == S.path]
        # nested closure (per repetition) counts as an escape site of its for_each call
        for cc in lib.bodies:
            if cc.kind == "closure" and cc.direct_parent == pb.path and any(callee_name(t) == S.path for _, t in cc.calls()):
                for bi, t in pb.calls():
                    if any(x[0] == "agg" and x[2] == cc.path for a in t["args"] for x in local.walk(fi.defs.operand(a))):
                        esc_blocks.append(bi)
        # a loop nested in the per-grapheme loop whose body escapes (one call per repeated grapheme) is an escape site like the for_each call
        for head, body_blocks in fi.cfg.natural_loops().items():
            if any(e in body_blocks for e in esc_blocks) and not all(tb in body_blocks for tb in ts):
                esc_blocks.append(head)
        okp = True
        for tb in ts:
            # every path entry -> to_string passes an escape block
            succ = {k: [x for x in v if x not in esc_blocks] for k, v in fi.cfg.succ.items() if k not in esc_blocks}
            seen = {0}
            st = [0]
            while st:
                x = st.pop()
                for y in succ.get(x, []):
                    if y not in seen:
                        seen.add(y)
                        st.append(y)
            if tb in seen and 0 not in esc_blocks:
                okp = False
        if okp:
            ctx.ok("ESCP-2", pb.path + ":escape before print on every path", {"escape_sites": len(esc_blocks)}, pb.loc())
        else:
            ctx.violation("ESCP-2", (pb.path, "unescaped path"), "a path prints a grapheme without escaping it first", pb.loc())
        # flags: captured variables come from the Literal's fields, passed in order
        ups = common.upvar_origins(lib, pb)
        for bi, t in pb.calls():
            if callee_name(t) != S.path:
                continue
            a1 = local.peel(fi.defs.operand(t["args"][1]))
            a2 = local.peel(fi.defs.operand(t["args"][2]))
            if a1[0] == "param" and a2[0] == "param":
                if a1[1] < a2[1] and pb.sig_inputs[a1[1] - 1] == "bool" and pb.sig_inputs[a2[1] - 1] == "bool":
                    ctx.ok("ESCP-2", pb.path + ":flags forwarded in order", {"escape": local.show(a1), "surrogate": local.show(a2)}, pb.loc(t.get("line")))
                else:
                    ctx.violation("ESCP-2", (pb.path, "flag order"), "escape/surrogate flags reach the escaper as (%s, %s)" % (local.show(a1), local.show(a2)), pb.loc(t.get("line")))
            elif a1[0] == "upvar" and a2[0] == "upvar" and [c_["name"] for c_ in pb.captures].index(a1[1]) < [c_["name"] for c_ in pb.captures].index(a2[1]):
                o1 = ups[[c_["name"] for c_ in pb.captures].index(a1[1])]
                o2 = ups[[c_["name"] for c_ in pb.captures].index(a2[1])]
                if local.peel(o1)[0] == "param" and local.peel(o2)[0] == "param" and local.peel(o1)[1] < local.peel(o2)[1]:
                    ctx.ok("ESCP-2", pb.path + ":flags forwarded in order", {"escape": local.show(o1), "surrogate": local.show(o2)}, pb.loc(t.get("line")))
                else:
                    ctx.violation("ESCP-2", (pb.path, "flag order"), "escape/surrogate flags reach the escaper as (%s, %s)" % (local.show(o1), local.show(o2)), pb.loc(t.get("line")))
            else:
                ctx.violation("ESCP-2", (pb.path, "flag source"), "escaper flags are %s, %s" % (local.show(a1), local.show(a2)), pb.loc(t.get("line")))



def all_callees(lib, b, depth=0, seen=None):
    seen = seen if seen is not None else set()
    out = set()
    work = [b]
    while work:
        x = work.pop()
        if x.path in seen:
            continue
        seen.add(x.path)
        for _, t in x.calls():
            n = callee_name(t) or ""
            out.add(n)
        work.extend(c for c in lib.bodies if c.kind == "closure" and c.direct_parent == x.path)
    return out


def reachable_names(lib, b):
    from sa import callgraph
    cg = callgraph.CallGraph(lib)
    return cg.reachable([b.path])
