"""CNT-1 / CNT-2 — what the single-code-point test counts (shared by C01, C02, C06).

The test `is this literal a single code point?` decides whether two alternatives are merged into a bracket class (by their first char) and whether an operand
may go without a group before a quantifier.  Both are only sound if the counter behind it counts *chars* and measures every unit."""
import re

from sa import ccp, local
from sa.facts import callee_name, norm


def rules(ctx):
    ctx.rule("FCH-1", "the first char of a grapheme's text is used for the whole grapheme only under a single-code-point test (locally or at every call site of the extracting function)")
    ctx.rule("CHR-1", "every assignment to the string entries of a grapheme is an element-wise map of the same entries (the entry is the unit of escaping)")
    ctx.rule("CNT-1", "the code-point counter behind the single-code-point test measures every unit it counts; a constant count needs a dominating length fact")
    ctx.rule("SCP-1", "the single-code-point predicate is true only for a character class or for a literal with code-point count 1 and maximum 1")
    ctx.rule("CNT-2", "every length measurement behind the single-code-point test counts chars (Chars/CharIndices::count, or the length of an ASCII escaper result)")


def cnt1(ctx, lib):
    """CNT-1: the function that counts the code points of a stored unit (with or without escaping) measures every string it counts.  A path that
    returns an integer *constant* for an element must know that the element has exactly that many chars (len()==1 / chars().count()==k);
    'is ASCII' is not such knowledge, because class tokens like \\d are two ASCII chars."""
    rid = "CNT-1"
    counters = [b for b in lib.bodies if b.kind == "assoc_fn" and b.sig_inputs == ["&grapheme::Grapheme", "bool"] and b.sig_output == "usize"]
    if not ctx.floor(rid, "code-point counting functions (&Grapheme, bool) -> usize", len(counters), 1):
        return
    for cb in counters:
        bodies = [cb] + [c for c in lib.bodies if c.kind == "closure" and c.parent == cb.path]
        measured = 0
        bad = []
        for b in bodies:
            m = ccp.Machine([lib])
            args = None
            if b.kind == "closure":
                args = [ccp.Sym("env")] + [ccp.Sym("it%d" % i) for i in range(2, b.arg_count + 1)]
            try:
                leaves = m.run(b, args)
            except Exception as e:
                ctx.undecided(rid, b.path, str(e), b.loc())
                continue
            for l in leaves:
                if l.kind != "return":
                    continue
                v = ccp.strip_ref(l.value)
                if isinstance(v, ccp.Const) and isinstance(v.v, int) and not isinstance(v.v, bool) and "usize" in (b.local_ty(0) or ""):
                    k = v.v
                    just = [a for a, val in l.label if val == "True" and re.match(r"^Eq\(", a) and re.search(r"(?:::len|::count)\(", a) and re.search(r"\b%d\)$" % k, a)]
                    if not just and k != 0:
                        bad.append((b, k, l.label))
                    elif k == 0 and not [a for a, val in l.label if "is_empty" in a or "::len(" in a or "::count(" in a]:
                        bad.append((b, k, l.label))
                elif re.search(r"::count\(|::len\(|::sum\(", ccp.show(v)):
                    measured += 1
        for b, k, label in bad:
            ctx.violation(rid, (b.path, "constant count"), "an element is counted as %d without being measured (path: %s): a stored unit that is ASCII can still hold several "
                          "chars (the class tokens \\d \\w \\s are two), so the single-code-point test and the character-class merge built on it go wrong"
                          % (k, ", ".join("%s=%s" % kv for kv in label) or "unconditional"), b.loc())
        if not bad:
            if measured:
                ctx.ok(rid, cb.path, {"measuring_paths": measured, "bodies": len(bodies)}, cb.loc())
            else:
                ctx.undecided(rid, cb.path, "no path of the counter measures a string (count/len/sum)", cb.loc())


def cnt2(ctx, lib):
    """CNT-2: what the single-code-point test counts are *chars* (code points).  Starting from the predicate (&Expression) -> bool that compares a crate counter
    with 1, every length measurement in the counters it reaches is Chars::count / CharIndices::count (or the length of an escaper result, which is ASCII);
    counting extended grapheme clusters or bytes makes multi-code-point units pass for single code points."""
    from sa import callgraph
    rid = "CNT-2"
    preds = [b for b in lib.bodies if b.kind == "assoc_fn" and b.sig_inputs == ["&expression::Expression"] and b.sig_output == "bool"]
    roots = set()
    for pb in preds:
        d = local.Defs(pb)
        for bi, blk in pb.iter_blocks():
            for st in blk["stmts"]:
                if st["k"] == "assign" and st["rv"]["k"] == "binop" and st["rv"]["op"] in ("Eq", "Le", "Lt"):
                    for side in ("a", "b"):
                        o = local.peel(d.operand(st["rv"][side]))
                        if o[0] == "call" and lib.body(o[1]) is not None and lib.body(o[1]).sig_output == "usize":
                            roots.add(o[1])
    if not ctx.floor(rid, "crate counters compared with a constant by an (&Expression) -> bool predicate", len(roots), 1):
        return
    # the counters: crate functions returning usize reachable from the roots through usize-returning crate functions, and their closures
    reach = set()
    work = sorted(roots)
    while work:
        pth = work.pop()
        if pth in reach:
            continue
        reach.add(pth)
        for b in [lib.body(pth)] + [c for c in lib.bodies if c.kind == "closure" and c.parent == pth]:
            for _, t in b.calls():
                cb = lib.body(callee_name(t) or "")
                if cb is not None and cb.sig_output == "usize" and not cb.derived:
                    work.append(cb.path)
    bodies = [b for b in lib.bodies if (b.path in reach or (b.kind == "closure" and b.parent in reach)) and not b.derived]
    n = 0
    for b in bodies:
        d = local.Defs(b)
        for bi, t in b.calls():
            nm = callee_name(t) or ""
            if lib.body(nm) is not None:
                continue
            if norm(t["dest"]["ty"]) != "usize":
                continue
            seg = nm.rsplit("::", 1)[-1]
            targs = [norm(x) for x in (t["callee"].get("res_args") or t["callee"].get("args") or [])]
            recv = norm(t["args"][0]["place"]["ty"]) if t["args"] and t["args"][0].get("place") else ""
            where = "%s:%s" % (b.path, seg)
            if seg == "sum":
                continue
            n += 1
            if seg == "count":
                it_ty = recv or (targs[0] if targs else "")
                if re.search(r"\bstd::str::(?:Chars|CharIndices)\b", it_ty) or re.search(r"std::str::(?:Chars|CharIndices)", nm):
                    ctx.ok(rid, where, {"counts": "chars"}, b.loc(t.get("line")))
                elif re.search(r"Graphemes|GraphemeIndices|Bytes|Utf16|Split|Lines", it_ty + nm):
                    ctx.violation(rid, (b.path, "unit of counting"), "the single-code-point test counts items of %s, not chars: a unit made of several code points (flag emoji, emoji + "
                                  "skin tone, conjoining jamo) passes for one code point, is merged into a character class by its first code point and loses its group before a "
                                  "quantifier" % (it_ty or nm), b.loc(t.get("line")))
                else:
                    # e.g. map(..).join("").chars().count() resolves to Chars; anything else is not understood
                    ctx.undecided(rid, where, "cannot tell what %s over %s counts" % (nm, it_ty), b.loc(t.get("line")))
            elif seg == "len":
                o = d.operand(t["args"][0])
                if any(x[0] == "call" and lib.body(x[1]) is not None and lib.body(x[1]).sig_output == "std::string::String" and "char" in lib.body(x[1]).sig_inputs for x in local.walk(o)):
                    ctx.ok(rid, where, {"counts": "bytes of an escaper result (ASCII)"}, b.loc(t.get("line")))
                elif re.search(r"Vec<grapheme::Grapheme>|\[grapheme::Grapheme\]|Vec<std::string::String>", recv):
                    ctx.violation(rid, (b.path, "unit of counting"), "the single-code-point test counts elements of %s, not chars" % recv, b.loc(t.get("line")))
                else:
                    ctx.undecided(rid, where, "a byte/element length (%s of %s) feeds the single-code-point test" % (nm, recv), b.loc(t.get("line")))
            else:
                ctx.undecided(rid, where, "unrecognised measurement %s feeds the single-code-point test" % nm, b.loc(t.get("line")))
    ctx.floor(rid, "length measurements behind the single-code-point test", n, 2)




def chr1(ctx, lib):
    """CHR-1: the entries of `Grapheme.chars` are the unit of escaping (one entry per grapheme, or one class token such as \\d): an assignment to the field must be
    an element-wise map of the same grapheme's entries.  Replacing them by a vector literal (e.g. the joined text) lets `\\` and a following `d` share an entry, which the
    escaper then takes for the class token."""
    rid = "CHR-1"
    n = 0
    for b in lib.bodies:
        if b.derived or b.from_expansion:
            continue
        d = None
        for bi, blk in b.iter_blocks():
            for s_ in blk["stmts"]:
                if s_["k"] != "assign":
                    continue
                proj = s_["place"]["proj"]
                if not (proj and proj[-1].get("k") == "field" and proj[-1].get("adt") == "grapheme::Grapheme" and "Vec<std::string::String>" in norm(s_["place"]["ty"])):
                    continue
                if b.path.startswith("grapheme::Grapheme::") and b.sig_output in ("grapheme::Grapheme", "Self") and not b.sig_inputs[:1] == ["&mut grapheme::Grapheme"]:
                    continue        # constructors
                d = d or local.Defs(b)
                o = local.peel(d.rvalue(s_["rv"]))
                fld = proj[-1].get("name")
                n += 1
                elementwise = False
                if o[0] == "call" and re.search(r"::collect(?:_vec)?$", o[1]) and o[2]:
                    m_ = local.peel(o[2][0])
                    if m_[0] == "call" and m_[1].endswith("Iterator::map") and any(x[0] == "field" and x[1] == fld for x in local.walk(m_[2][0])):
                        elementwise = True
                literal = any(x[0] == "call" and re.search(r"^vec!$|box_assume_init_into_vec|vec::from_elem|Vec::<T>::new$|Vec::<T>::with_capacity$", x[1]) for x in local.walk(o))
                if elementwise:
                    ctx.ok(rid, "%s:%s = map over the same entries" % (b.path, fld), None, b.loc(s_.get("line")))
                elif literal:
                    ctx.violation(rid, (b.path, "entries replaced"), "the entries of `%s` are replaced by a freshly built vector instead of being mapped one by one: the entry structure "
                                  "(one per grapheme / class token) that per-entry escaping relies on is lost (a literal backslash followed by `d` in one entry is taken for \\d)" % fld,
                                  b.loc(s_.get("line")))
                else:
                    ctx.undecided(rid, b.path, "cannot tell whether the assignment to `%s` keeps one entry per old entry: %s" % (fld, local.show(o)[:100]), b.loc(s_.get("line")))
    ctx.floor(rid, "assignments to the string entries of a grapheme", n, 1)


def scp1(ctx, lib):
    """SCP-1: the single-code-point predicate answers true only for a character class, or for a literal whose code-point counter is 1 *and* whose (only) grapheme is
    not a repetition (maximum == 1).  `count == 1 || max == 1`, `max != 1` or a catch-all `true` arm make multi-character units pass for single code points (they are
    then merged into bracket classes and lose their group under a quantifier)."""
    rid = "SCP-1"
    EXPR = "expression::Expression"
    adt = lib.adts.get(EXPR)
    preds = []
    for pb in lib.bodies:
        if pb.kind == "assoc_fn" and pb.sig_inputs == ["&" + EXPR] and pb.sig_output == "bool" and not pb.derived:
            d = local.Defs(pb)
            for _, blk in pb.iter_blocks():
                for st in blk["stmts"]:
                    if st["k"] == "assign" and st["rv"]["k"] == "binop" and st["rv"]["op"] == "Eq":
                        for side in ("a", "b"):
                            o = local.peel(d.operand(st["rv"][side]))
                            if o[0] == "call" and lib.body(o[1]) is not None and lib.body(o[1]).sig_output == "usize" and "char" in o[1] and pb not in preds:
                                preds.append(pb)
    if not ctx.floor(rid, "single-code-point predicates", len(preds), 1) or not adt:
        return
    cls_variants = {str(i) for i, v in enumerate(adt["variants"]) if any("BTreeSet<char>" in norm(f["ty"]) for f in v["fields"])}
    lit_variants = {str(i) for i, v in enumerate(adt["variants"]) if any("cluster::GraphemeCluster" in norm(f["ty"]) for f in v["fields"]) and len(v["fields"]) <= 3}
    for pb in preds:
        try:
            leaves = ccp.Machine([lib]).run(pb, [ccp.Sym("self")])
        except Exception as e:
            ctx.undecided(rid, pb.path, str(e)[:80], pb.loc())
            continue
        bad, und = [], []
        for l in leaves:
            if l.kind != "return":
                und.append("non-returning path")
                continue
            v = l.value
            lab = dict(l.label)
            variant = lab.get("discr(self)")
            if isinstance(v, ccp.Const) and v.v is False:
                continue
            counted = any(re.match(r"^Eq\(.*char_count\(.*\), 1\)$", a) and val == "True" for a, val in l.label)
            unrepeated_fact = any(re.match(r"^Eq\(.*max\w*\(.*\), 1\)$", a) and val == "True" for a, val in l.label)
            if isinstance(v, ccp.Const) and v.v is True:
                if variant in cls_variants:
                    continue
                if variant in lit_variants and counted and unrepeated_fact:
                    continue
                bad.append("true for %s" % (", ".join("%s=%s" % kv for kv in l.label) or "every expression"))
                continue
            txt = ccp.show(v)
            if variant in lit_variants and counted and re.match(r"^Eq\(.*max\w*\(.*\), 1\)$", txt):
                continue
            if variant in lit_variants and unrepeated_fact and re.match(r"^Eq\(.*char_count\(.*\), 1\)$", txt):
                continue
            if re.match(r"^(?:Ne|Lt|Le|Gt|Ge)\(", txt) or (variant in lit_variants and not counted and not unrepeated_fact and re.match(r"^Eq\(", txt)):
                bad.append("%s under %s" % (txt[:80], ", ".join("%s=%s" % kv for kv in l.label)[:120]))
            else:
                und.append(txt[:80])
        if bad:
            ctx.violation(rid, (pb.path, "single code point"), "the single-code-point predicate can answer true without `code-point count == 1 and maximum == 1` on a literal: %s; "
                          "a multi-character or repeated unit is then merged into a bracket class or printed without its group" % "; ".join(bad[:3]), pb.loc())
        elif und:
            ctx.undecided(rid, pb.path, "a path returns %s" % und[0], pb.loc())
        else:
            ctx.ok(rid, pb.path, {"paths": len(leaves)}, pb.loc())


def fch1(ctx, lib):
    """FCH-1: wherever the first char of a grapheme's text stands for the whole grapheme (`value().chars().next()` feeding a set of chars), the grapheme is known to be a single
    code point: the extraction sits in a function whose every call is dominated by the single-code-point predicate on the same expression, or is itself dominated by a
    comparison of the code-point counter with 1.  Otherwise a grapheme of several code points (flag emoji, emoji + skin tone, conjoining jamo) is reduced to its first one."""
    from sa import guards
    rid = "FCH-1"
    EXPR = "expression::Expression"
    single = set()
    for pb in lib.bodies:
        if pb.kind == "assoc_fn" and pb.sig_inputs == ["&" + EXPR] and pb.sig_output == "bool":
            d = local.Defs(pb)
            for _, blk in pb.iter_blocks():
                for st in blk["stmts"]:
                    if st["k"] == "assign" and st["rv"]["k"] == "binop" and st["rv"]["op"] == "Eq":
                        for side in ("a", "b"):
                            o = local.peel(d.operand(st["rv"][side]))
                            if o[0] == "call" and lib.body(o[1]) is not None and lib.body(o[1]).sig_output == "usize":
                                single.add(pb.path)
    n = 0
    for b in lib.bodies:
        if b.derived or b.from_expansion:
            continue
        fi = None
        for bi, t in b.calls():
            if not (callee_name(t) or "").endswith("str::Chars as std::iter::Iterator>::next"):
                continue
            fi = fi or guards.FnInfo.of(b)
            o = fi.defs.operand(t["args"][0])
            from_value = [x for x in local.walk(o) if x[0] == "call" and lib.body(x[1]) is not None and lib.body(x[1]).sig_inputs == ["&grapheme::Grapheme"]
                          and lib.body(x[1]).sig_output == "std::string::String"]
            if not from_value:
                continue
            if any(x[0] == "call" and x[3] == bi for h, body in fi.cfg.natural_loops().items() for x in [("call", "", [], bi)] if bi in body and False):
                continue
            n += 1
            root = lib.body(b.parent) if b.kind == "closure" and b.parent and lib.body(b.parent) is not None else b
            # (b) guarded locally by a counter == 1
            local_ok = False
            gs = list(guards.guards(b, bi))
            if root is not b:
                # a closure: the tests that dominate its creation in the enclosing function hold inside it as well
                for rbi, rblk in root.iter_blocks():
                    for st in rblk["stmts"]:
                        if st["k"] == "assign" and st["rv"]["k"] == "aggregate" and st["rv"].get("agg") == "closure" and norm(st["rv"].get("closure") or "") == b.path:
                            gs.extend(guards.guards(root, rbi))
            for g in gs:
                og = local.peel(g["origin"])
                if og[0] == "binop" and og[1] == "Eq" and guards.edge_truth(g) is True and any(local.const_value(local.peel(x)) == 1 for x in og[2:4]) \
                        and any(y[0] == "call" and lib.body(y[1]) is not None and lib.body(y[1]).sig_output == "usize" and "char" in y[1] for x in og[2:4] for y in local.walk(x)):
                    local_ok = True
                if og[0] == "call" and og[1] in single and guards.edge_truth(g) is True:
                    local_ok = True
            # (a) every call of the enclosing function is dominated by the single-code-point predicate
            sites = guards.call_sites(lib, root.path)
            callers_ok = bool(sites)
            for cb, cbi, ct in sites:
                fic = guards.FnInfo.of(cb)
                okc = False
                for g in guards.guards(cb, cbi):
                    og = local.peel(g["origin"])
                    if og[0] == "call" and og[1] in single and guards.edge_truth(g) is True and fic.cfg.edge_dominates(g["block"], g["succ"], cbi):
                        okc = True
                if not okc:
                    callers_ok = False
            if local_ok or callers_ok:
                ctx.ok(rid, "%s:first char of a grapheme under a single-code-point test" % b.path, {"via": "local guard" if local_ok else "guards at all %d call sites" % len(sites)}, b.loc(t.get("line")))
            else:
                ctx.violation(rid, (b.path, "first char of a grapheme"), "the first char of a grapheme's text is taken for the whole grapheme without a test that the grapheme is a single "
                              "code point (a test on the number of graphemes is not one): a flag emoji or an emoji with a skin tone is reduced to its first code point, so the class "
                              "matches neither the test case nor only the test cases", b.loc(t.get("line")))
    ctx.floor(rid, "extractions of the first char of a grapheme", n, 1)
