"""C05 — repetition conversion is notation only (notation clauses + trie-edge immutability)."""
import re

from sa import callgraph, ccp, guards, local
from sa.facts import callee_name, norm
from . import common, fmtmodel
from .C01 import dfa_final_field, HASHSET_INSERT

GRAPH_MUT = re.compile(r"petgraph::.*::(?:update_edge|edge_weight_mut|remove_edge|remove_node|retain_edges|retain_nodes|node_weight_mut|clear_edges|index_mut)$")


def grapheme_fmt(lib):
    for b in lib.bodies:
        if b.impl_trait == "std::fmt::Display" and b.impl_self == "grapheme::Grapheme" and b.path.endswith("::fmt"):
            return b
    return None


def grapheme_fmt_leaves(ctx, lib, rid):
    b = grapheme_fmt(lib)
    if b is None:
        ctx.anchor_lost(rid, "<grapheme::Grapheme as Display>::fmt")
        return None, None
    adt = lib.adts.get("grapheme::Grapheme")
    u32s = [f["name"] for f in adt["variants"][0]["fields"] if f["ty"] == "u32"] if adt else []
    bools = [f["name"] for f in adt["variants"][0]["fields"] if f["ty"] == "bool"] if adt else []
    me = ccp.Sym("self")
    pre = {}
    # counts are never zero (constructors write 1 or a count > minimum_repetitions >= 1: THR-G2/THR-G3)
    for f in u32s:
        pre[ccp.Bin("Eq", ccp.Fld(me, f), ccp.Const(0)).key()] = ccp.Const(False)
    m = ccp.Machine([lib], inline=fmtmodel.component_inline, facts=pre)
    leaves = m.run(b, [me, ccp.Sym("f")])
    return b, {"leaves": leaves, "u32": u32s, "bools": bools}


def qnt1(ctx, lib, roles):
    b, r = grapheme_fmt_leaves(ctx, lib, "QNT-1")
    if b is None:
        return
    me = ccp.Sym("self")
    # which u32 field is min / max: by the range test Lt(a, b) that the function itself performs
    lts = set()
    for l in r["leaves"]:
        for k in l.facts:
            if k[0] == "bin" and k[1] == "Lt":
                lts.add((k[2], k[3]))
    if len(lts) != 1:
        ctx.undecided("QNT-1", b.path, "expected exactly one strict comparison between the two counts, found %d" % len(lts), b.loc())
        return
    kmin, kmax = list(lts)[0]
    lt_key = ("bin", "Lt", kmin, kmax)
    gt_keys = [k for l in r["leaves"] for k in l.facts if k[0] == "bin" and k[1] == "Gt" and k[2] == kmin and k[3] == ccp.Const(1).key()]
    gt_key = ("bin", "Gt", kmin, ccp.Const(1).key())
    n = 0
    colour_keys = set()
    for l in r["leaves"]:
        if l.kind != "return":
            ctx.undecided("QNT-1", b.path, "non-returning path", b.loc())
            continue
        w = [e for e in l.events if e["k"] == "write_fmt"]
        if len(w) != 1 or not isinstance(w[0]["value"], ccp.Tmpl):
            ctx.undecided("QNT-1", b.path, "expected one formatted write", b.loc())
            continue
        tm = w[0]["value"]
        text = "".join(p if isinstance(p, str) else "\x00" for p in tm.parts)
        text = fmtmodel.strip_sgr(text).replace("\n", "")
        holes = [p for p in tm.parts if not isinstance(p, str)]
        is_range = l.fact(lt_key)
        is_rep = l.fact(gt_key)
        # expected quantifier
        m = re.match(r"^(\((?:\?:)?)?\x00(\))?(?:\{(\x00)(?:,(\x00))?\})?$", text)
        if not m:
            ctx.violation("QNT-1", (b.path, "template"), "unexpected printed form %r on path %s" % (ccp.show(tm), l.label), b.loc())
            continue
        has_group = bool(m.group(1))
        if bool(m.group(1)) != bool(m.group(2)):
            ctx.violation("QNT-1", (b.path, "unbalanced group"), "group opened/closed inconsistently: %s" % ccp.show(tm), b.loc())
            continue
        q = "range" if m.group(4) else ("count" if m.group(3) else None)
        want = "range" if is_range else ("count" if is_rep else None)
        if is_range is None or (not is_range and is_rep is None):
            ctx.undecided("QNT-1", b.path, "a path does not test the counts: %s" % (l.label,), b.loc())
            continue
        bad = None
        if q != want:
            bad = "prints %s but the counts say %s" % (q or "no quantifier", want or "no quantifier")
        else:
            qh = holes[1:]
            keys = [h.v.key() if isinstance(h, ccp.Hole) else None for h in qh]
            if q == "range" and keys != [kmin, kmax]:
                bad = "range quantifier holes are %s, expected {min,max}" % [ccp.show(h) for h in qh]
            if q == "count" and keys != [kmin]:
                bad = "count quantifier hole is %s, expected {min}" % [ccp.show(h) for h in qh]
            if q is None and has_group:
                bad = "unquantified unit is wrapped in a group"
        if bad:
            ctx.violation("QNT-1", (b.path, "quantifier"), "%s [path %s]" % (bad, [kv for kv in l.label if "colorized" not in kv[0]]), b.loc())
        else:
            n += 1
            ctx.ok("QNT-1", "%s|%s" % (b.path, ";".join("%s=%s" % kv for kv in l.label)), {"printed": ccp.show(tm)}, b.loc())
    ctx.floor("QNT-1", "abstract paths of Grapheme::fmt", n, 20)
    return r


def grpq1(ctx, lib):
    b, r = grapheme_fmt_leaves(ctx, lib, "GRPQ-1")
    if b is None:
        return
    bad_atoms = {}
    n = 0
    for l in r["leaves"]:
        w = [e for e in l.events if e["k"] == "write_fmt"]
        if len(w) != 1 or not isinstance(w[0]["value"], ccp.Tmpl):
            continue
        text = "".join(p if isinstance(p, str) else "\x00" for p in w[0]["value"].parts)
        text = fmtmodel.strip_sgr(text).replace("\n", "")
        quantified = "{" in text
        grouped = text.startswith("(")
        if not quantified or grouped:
            continue
        n += 1
        # the group was omitted: why?  Accepted reasons: the unescaped code-point count is one; an anchored recogniser.
        reasons = [(a, v) for a, v in l.label if v in ("True", "False") and not re.match(r"^(?:Lt|Gt)\(self\.\w+, (?:self\.\w+|1)\)$", a)
                   and "colorized" not in a and "is_empty(self.repetitions)" not in a and not re.match(r"^Eq\(self\.\w+, 0\)$", a)]
        accepted = False
        proxy = None
        for a, v in reasons:
            if re.match(r"^Eq\(grapheme::Grapheme::char_count\(self, False\), 1\)$", a) and v == "True":
                accepted = True
        if not accepted:
            for a, v in reasons:
                if v != "True":
                    continue
                if re.search(r"<impl str>::(?:matches|match_indices|contains|find|rfind)\(", a) or re.search(r"String::len\(|<impl str>::len\(", a):
                    proxy = a
                m = re.match(r"^([a-z_:A-Z0-9]+)\(", a)
                if m and lib.body(m.group(1)) is not None and lib.body(m.group(1)).sig_output == "bool":
                    rb = lib.body(m.group(1))
                    names = {callee_name(t) or "" for _, t in rb.calls()}
                    anchored = any(re.search(r"<impl str>::(?:strip_prefix|starts_with)$", x) for x in names)
                    bounded = any(re.search(r"Iterator::count$|<impl str>::ends_with$|Chars.*::next$", x) for x in names)
                    counts_bs = any(re.search(r"<impl str>::(?:matches|match_indices)$", x) for x in names)
                    if anchored and bounded and not counts_bs:
                        accepted = True
                    else:
                        proxy = a
        if accepted:
            ctx.ok("GRPQ-1", "%s|%s" % (b.path, ";".join("%s=%s" % kv for kv in reasons)), None, b.loc())
        else:
            key = proxy or ";".join(a for a, _ in reasons)
            bad_atoms.setdefault(key, 0)
            bad_atoms[key] += 1
    for a, cnt in bad_atoms.items():
        short = "str::matches('\\\\')" if "matches(" in a else a[:80]
        ctx.violation("GRPQ-1", (b.path, short),
                      "on %d path(s) the group around a quantified unit is omitted because %s holds: a measure of the *printed* (escaped) string, "
                      "not of the unit's code points; a cluster such as '.' + U+FF9E has one backslash and two code points, and the quantifier then binds "
                      "to the last code point only" % (cnt, a[:160]), b.loc())
    ctx.floor("GRPQ-1", "quantified paths without a group", n, 2)


def lbl1(ctx, lib, trie_insert):
    # LBL-1: in the minimiser's predecessor computation the insert is dominated by equality of the labels' values
    n = 0
    for b in lib.bodies:
        if b.derived or b.kind == "closure":
            continue
        if not any("grapheme::Grapheme" in t and t.startswith("&") for t in b.sig_inputs):
            continue
        if b.sig_output is None or not b.sig_output.startswith("std::collections::HashSet<petgraph"):
            continue
        fi = guards.FnInfo.of(b)
        for bi, t in b.calls():
            if not HASHSET_INSERT.match(callee_name(t) or ""):
                continue
            n += 1
            ok = False
            for g in guards.guards(b, bi):
                o = local.peel(g["origin"])
                if o[0] == "call" and o[1].endswith("::eq") and guards.edge_truth(g) is True:
                    sides = [local.peel(x) for x in o[2]]
                    vals = [s for s in sides if s[0] == "call" and lib.body(s[1]) is not None and lib.body(s[1]).sig_inputs == ["&grapheme::Grapheme"]
                            and (lib.body(s[1]).sig_output or "") in ("std::string::String", "&std::vec::Vec<std::string::String>")]
                    if len(vals) == 2 and vals[0] != vals[1] and fi.cfg.edge_dominates(g["block"], g["succ"], bi):
                        ok = True
            if ok:
                ctx.ok("LBL-1", b.path + ":insert requires equal label values", None, b.loc(t.get("line")))
            else:
                ctx.violation("LBL-1", (b.path, "HashSet::insert"), "a parent state is recorded without the edge label's value being equal to the partition label's value", b.loc(t.get("line")))
    ctx.floor("LBL-1", "predecessor-set inserts guarded by the label", n, 1)


def lbl3(ctx, lib):
    """LBL-3: the trie lookup hands out an existing edge unchanged only if the edge's repetition maximum equals the inserted label's maximum (a dominating equality of
    the same u32 accessor on both labels).  Reusing an edge on a weaker agreement - e.g. `max == max || min == min` - routes `x{2}` over an edge `x{2,3}`: the continuation of
    the shorter run becomes reachable after the longer one and the language grows."""
    rid = "LBL-3"
    G = "grapheme::Grapheme"
    n = 0
    for b in lib.bodies:
        if b.derived or b.kind == "closure" or not b.path.startswith("dfa::"):
            continue
        if not (b.sig_output or "").startswith("std::option::Option<petgraph") or not any(t == "&" + G for t in b.sig_inputs):
            continue
        fi = guards.FnInfo.of(b)
        upd = [bi for bi, t in b.calls() if re.search(r"::update_edge$", callee_name(t) or "")]
        for bi, blk in b.iter_blocks():
            for st in blk["stmts"]:
                if not (st["k"] == "assign" and st["place"]["l"] == 0 and not st["place"]["proj"] and st["rv"]["k"] == "aggregate"
                        and st["rv"].get("agg") == "adt" and str(st["rv"].get("variant")) in ("Some", "1")):
                    continue
                if any(bi == u or bi in fi.cfg.reachable_from(u) and fi.cfg.dominates(u, bi) for u in upd):
                    continue        # the widening path (TRI-1)
                n += 1
                eqs = []
                for g in guards.guards(b, bi):
                    o = local.peel(g["origin"])
                    if o[0] == "binop" and o[1] == "Eq" and guards.edge_truth(g) is True and fi.cfg.edge_dominates(g["block"], g["succ"], bi):
                        sides = [local.peel(x) for x in o[2:4]]
                        if all(s_[0] == "call" and lib.body(s_[1]) is not None and lib.body(s_[1]).sig_inputs == ["&" + G] and lib.body(s_[1]).sig_output == "u32" for s_ in sides) \
                                and sides[0][1] == sides[1][1] and sides[0][2] != sides[1][2]:
                            eqs.append(sides[0][1])
                has_max = any(re.search(r"max", e) for e in eqs)
                if has_max:
                    ctx.ok(rid, "%s:edge reused under equal maxima" % b.path, {"equalities": sorted(set(eqs))}, b.loc(st.get("line")))
                elif eqs:
                    ctx.undecided(rid, b.path, "an existing edge is reused under equality of %s only" % sorted(set(eqs)), b.loc(st.get("line")))
                else:
                    ctx.violation(rid, (b.path, "edge reused without equal maxima"), "the trie lookup returns an existing edge although no equality of the two labels' repetition "
                                  "maxima dominates that return (a disjunction such as `max == max || min == min` does not): x{2} is then routed over an edge x{2,3}, and what follows "
                                  "the shorter run is accepted after the longer one as well", b.loc(st.get("line")))
    ctx.floor(rid, "returns of an existing edge by the trie lookup", n, 1)


def lbl2(ctx, lib):
    """LBL-2: wherever the automaton code decides whether two edge labels are the same label (trie insertion, predecessor computation) it compares the labels' *entries*
    (`chars()`), not their joined text (`value()`): the literal text `\\` + `d` (two entries) and the class token `\\d` (one entry) have the same joined text."""
    n = 0
    joined = {b.path for b in lib.bodies if b.sig_inputs == ["&grapheme::Grapheme"] and b.sig_output == "std::string::String" and not b.derived and b.kind == "assoc_fn"}
    for b in lib.bodies:
        if b.derived or not b.path.startswith("dfa::"):
            continue
        fi = None
        for bi, t in b.calls():
            nm = callee_name(t) or ""
            if not re.search(r"::(?:eq|ne)$", nm) or len(t["args"]) != 2:
                continue
            fi = fi or guards.FnInfo.of(b)
            sides = [local.peel(fi.defs.operand(a)) for a in t["args"]]
            inner = []
            for s_ in sides:
                while s_[0] in ("ref", "deref"):
                    s_ = local.peel(s_[1])
                inner.append(s_)
            if all(x[0] == "call" and x[1] in joined for x in inner):
                n += 1
                ctx.violation("LBL-2", (b.path, "labels compared by joined text"),
                              "two edge labels are taken for the same label when their joined text is equal (%s): the literal text `\\d` (entries `\\`, `d`) then shares an edge with the "
                              "class token `\\d`, e.g. grex -d -r 11 '\\d\\d' -> ^\\d{2}$, which does not match the test case \\d\\d" % inner[0][1], b.loc(t.get("line")))
            elif all(x[0] == "call" and lib.body(x[1]) is not None and lib.body(x[1]).sig_inputs == ["&grapheme::Grapheme"]
                     and (lib.body(x[1]).sig_output or "") == "&std::vec::Vec<std::string::String>" for x in inner):
                n += 1
                ctx.ok("LBL-2", "%s:labels compared entry-wise" % b.path, None, b.loc(t.get("line")))
    ctx.floor("LBL-2", "label identity tests in the automaton code", n, 2)


def tri1(ctx, lib):
    adt, field = dfa_final_field(lib)
    ins = None
    for b in lib.bodies:
        fi = None
        for bi, t in b.calls():
            if HASHSET_INSERT.match(callee_name(t) or ""):
                fi = fi or guards.FnInfo.of(b)
                o = local.peel(fi.defs.operand(t["args"][0]))
                if o[0] == "field" and o[3] == adt and o[1] == field:
                    ins = b
    if ins is None:
        ctx.anchor_lost("TRI-1", "trie insertion function")
        return None
    cg = callgraph.CallGraph(lib)
    reach = cg.reachable([ins.path])
    n = 0
    for p in sorted(reach):
        b = lib.body(p)
        for bi, t in b.calls():
            nme = callee_name(t) or ""
            n += 1
            if GRAPH_MUT.search(nme):
                ctx.violation("TRI-1", (p, nme.split("::<")[0].replace("petgraph::prelude::", "") + "::" + nme.rsplit("::", 1)[-1]),
                              "an existing trie edge is rewritten while inserting a test case: widening (v,min,max) on an edge that earlier test cases already "
                              "traverse adds v^k + their continuations to the language", b.loc(t.get("line")))
    ctx.ok("TRI-1", ins.path, {"functions_reachable": len(reach), "calls_scanned": n}, ins.loc())
    return ins


def run(ctx):
    ctx.rule("TRI-1", "no petgraph edge/node mutation other than add_node/add_edge is reachable from the trie insertion")
    ctx.rule("QNT-1", "ccp over <Grapheme as Display>::fmt: {min,max} printed iff min<max (holes in that order), {min} iff not range and min>1, nothing otherwise; "
                      "a group only around quantified units")
    ctx.rule("GRPQ-1", "where the group around a quantified unit is omitted, the deciding condition is the unit's code-point count (or an anchored, bounded recogniser "
                       "of one escaped atom), never a count of backslashes in the printed string")
    ctx.rule("LBL-1", "predecessor states are collected only under equality of the labels' values (dominating true edge)")
    ctx.assume("language equality with/without conversion for all inputs is not decided")
    ctx.assume("grapheme counts are never 0 (THR-G2/THR-G3)")
    prog = common.view(ctx, "default")
    lib = prog.lib
    roles = common.role_fields(ctx, lib, want=())
    ins = tri1(ctx, lib)
    qnt1(ctx, lib, roles)
    grpq1(ctx, lib)
    lbl1(ctx, lib, ins)
    ctx.rule("LBL-2", "label identity in the automaton code is decided on the labels' entries (chars()), never on their joined text (value())")
    lbl2(ctx, lib)
    ctx.rule("LBL-3", "the trie lookup reuses an existing edge unchanged only under a dominating equality of the two labels' repetition maxima")
    lbl3(ctx, lib)
    from . import counting
    counting.rules(ctx)
    counting.chr1(ctx, lib)
    # ESC-3 (shared with C01): nested repetitions are escaped at every level the printer prints
    from .C01 import esc3, esc4
    ctx.rule("ESC-3", "if the grapheme printer is recursive over nested repetitions, escaping descends as deep, on every path")
    ctx.rule("ESC-4", "the printer prints a grapheme's own text only where it was escaped: under the same emptiness test of the nested repetitions that the escaping dispatch uses")
    esc3(ctx, lib)
    esc4(ctx, lib)
    from . import memo
    memo.rules(ctx)
    memo.check(ctx, lib)
    # PRC-1/2 (shared with C02): a quantifier applied to a repeated substring binds to the whole of it
    from .C02 import prc1, prc2
    ctx.rule("PRC-1", "precedence table: Alternation < Concatenation <= Literal < Repetition")
    ctx.rule("PRC-2", "an operand is parenthesised iff its precedence is lower than its parent's and it is not a single code point (a converted repetition "
                      "`(?:ab){2}` under `?` keeps its outer group: `{2}?` would be the lazy form, not an optional)")
    pf = prc1(ctx, lib)
    if pf is not None:
        prc2(ctx, lib, pf)
