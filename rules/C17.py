"""C17 — the WebAssembly binding delegates faithfully (wasm view: src/wasm.rs type-checked for the host)."""
import re

from sa import ccp, guards, local
from sa.facts import callee_name, norm
from . import binding, common


def camel(s):
    parts = s.split("_")
    return parts[0] + "".join(p.capitalize() for p in parts[1:])


def run(ctx):
    ctx.rule("WSM-1", "every public setter of the library (except the CLI-only one) has a camelCase sibling in the wasm builder whose effect summary is equal: same settings "
                      "fields, same value class (constant true / own parameter), unconditional, returning a clone of itself")
    ctx.rule("WSM-2", "threshold siblings store the value only for values >= 1 and otherwise return Err(JsValue::from(<the library's message>))")
    ctx.rule("WSM-3", "from(): the library constructor (which panics on an empty list) is reached only when the filtered list is non-empty; the empty case returns "
                      "Err(JsValue::from(<the library's message>)) - no trap")
    ctx.rule("WSM-4", "build() returns the library's build() of the wrapped builder unchanged")
    ctx.rule("WSM-5", "from() hands every string of the JS array to the library: one as_string conversion per element, no further filter or rewrite")
    ctx.assume("#[wasm_bindgen] only adds glue around the user-written method bodies; the bodies behave on wasm32 as type-checked for the host "
               "(the view rewrites cfg(target_family=\"wasm\") to cfg(all()); no wasm32 target is installed)")
    prog = common.view(ctx, "wasm")
    lib = prog.lib
    prefix = None
    for p_, a in lib.adts.items():
        if p_.startswith("wasm::") and a["kind"] == "struct" and any("builder::RegExpBuilder" in f["ty"] for f in a["variants"][0]["fields"]):
            prefix = p_
    if prefix is None:
        ctx.anchor_lost("WSM-1", "wasm wrapper struct around the library builder")
        return
    methods = {b.path[len(prefix) + 2:]: b for b in lib.bodies if b.path.startswith(prefix + "::") and b.kind == "assoc_fn" and not b.from_expansion and not b.derived}

    def expected_return(v, is_thr):
        if is_thr:
            if not (isinstance(v, ccp.Agg) and v.label and v.label.endswith("::Ok") and v.fields):
                return False
            v = v.fields[0]
        return isinstance(v, ccp.Call) and v.callee.endswith("Clone>::clone") and v.args and isinstance(v.args[0], ccp.Sym) and v.args[0].name == "self"

    n = binding.check_binding(ctx, lib, "WSM", methods, camel, ("self",), expected_return, thresholds_signed=False)
    ctx.floor("WSM-1", "setter siblings in agreement", n, 16)
    api = common.spec("api")
    # WSM-3
    fb = methods.get("from")
    if fb is None:
        ctx.anchor_lost("WSM-3", prefix + "::from")
    else:
        leaves = ccp.Machine([lib]).run(fb)
        okl = [l for l in leaves if isinstance(l.value, ccp.Agg) and l.value.label and l.value.label.endswith("::Ok")]
        erl = [l for l in leaves if isinstance(l.value, ccp.Agg) and l.value.label and l.value.label.endswith("::Err")]
        bad = None
        if len(leaves) != len(okl) + len(erl) or not okl or not erl:
            bad = "expected only Ok and Err paths, at least one of each, found %s" % sorted({ccp.show(l.value)[:60] for l in leaves})
        for ok_, er_ in ([(o_, e_) for o_ in okl for e_ in erl] if not bad else []):
            if bad:
                break
            msg, _ = binding.err_message(er_.value)
            core_calls = [e for e in ok_.events if e["k"] == "call" and e["callee"] == common.BUILDER + "::from"]
            err_core = [e for e in er_.events if e["k"] in ("call", "panic") and e["callee"] == common.BUILDER + "::from"]
            emp_ok = [(a, v) for a, v in ok_.label if "is_empty(" in a]
            emp_er = [(a, v) for a, v in er_.label if "is_empty(" in a]
            if msg != api["constructor_panic"]:
                bad = "the empty case returns message %r, the library's is %r" % (msg, api["constructor_panic"])
            elif not core_calls or err_core:
                bad = "the library constructor is %s" % ("also called on the empty path (it panics -> trap)" if err_core else "never called")
            elif not (emp_ok and emp_ok[0][1] == "False" and emp_er and emp_er[0][1] == "True" and emp_ok[0][0] == emp_er[0][0]):
                bad = "the Ok/Err split is not an emptiness test of one list: %s / %s" % (ok_.label, er_.label)
            else:
                # the list tested for emptiness is the one handed to the library constructor
                tested = emp_ok[0][0]
                arg = ccp.show(core_calls[0]["args"][0]) if core_calls[0]["args"] else ""
                if arg not in tested:
                    bad = "emptiness is tested on %s but %s is passed to the library" % (tested[:80], arg[:80])
        if bad:
            ctx.violation("WSM-3", (fb.path, "empty input"), bad, fb.loc())
        else:
            ctx.ok("WSM-3", fb.path, {"empty": "Err(JsValue::from(msg))", "non_empty": "library from()"}, fb.loc())
    # WSM-5: what from() hands to the library is every string of the JS array, nothing filtered or rewritten
    if fb is not None:
        from sa import local as _l
        from sa.facts import callee_name as _cn
        d = _l.Defs(fb)
        sites = [(bi, t) for bi, t in fb.calls() if _cn(t) == common.BUILDER + "::from"]
        for bi, t in sites:
            o = d.operand(t["args"][0])
            adapters = [x for x in _l.walk(o) if x[0] == "call" and re.search(r"Iterator::\w+$|Itertools::\w+$|::iter$|::into_iter$|::to_vec$", x[1])]
            bad = None
            conv = 0
            for x in adapters:
                seg = x[1].rsplit("::", 1)[-1]
                if seg in ("iter", "into_iter", "collect", "collect_vec", "to_vec", "cloned", "copied"):
                    continue
                if seg in ("filter_map", "map", "flat_map"):
                    c = _l.peel(x[2][1]) if len(x[2]) > 1 else None
                    cb = lib.body(c[2]) if c and c[0] == "agg" and c[1] == "closure" else None
                    r = _l.peel(_l.Defs(cb).local(0)) if cb is not None else None
                    if r is not None and r[0] == "call" and r[1].endswith("JsValue::as_string") and _l.peel(r[2][0]) in (("param", 2), ("deref", ("param", 2))) or \
                            (r is not None and r[0] == "call" and r[1].endswith("JsValue::as_string") and any(y == ("param", 2) for y in _l.walk(r[2][0])) and len(list(_l.walk(r))) <= 6):
                        conv += 1
                        continue
                    bad = "the conversion closure returns %s, not just the element's as_string()" % (_l.show(r)[:100] if r is not None else "?")
                    break
                bad = "the array passes through %s before it reaches the library" % x[1]
                break
            if bad is None and conv == 0 and not adapters:
                # loop form: the list is filled by push(as_string(item).unwrap-by-pattern) for every item of a loop over the array
                pushes = []
                for l in leaves:
                    for e in l.events:
                        if e["k"] == "call" and e["callee"].endswith("Vec::<T, A>::push") and len(e["args"]) == 2:
                            pushes.append((l, e))
                okp = bool(pushes)
                why = "no push into the list handed to the library"
                for l, e in pushes:
                    v = e["args"][1]
                    txt = ccp.show(v)
                    ids = re.findall(r"#(\w+@bb\d+#\d+)", txt)
                    is_conv = isinstance(v, ccp.Fld) and txt.startswith("wasm_bindgen::JsValue::as_string(") and ids and "Iterator>::next" in txt
                    facts = [(a, val) for a, val in l.label if ids and ids[0] in a]
                    extra = [(a, val) for a, val in facts if not (a.startswith("discr(") and val == "1")]
                    if not is_conv or extra:
                        okp = False
                        why = "an element reaches the list as %s under %s" % (txt[:80], extra[:2])
                if okp:
                    conv = 1
                else:
                    bad = "the array is converted in a loop, but " + why
            if bad is None and conv != 1:
                bad = "expected exactly one JsValue::as_string conversion between the JS array and the library constructor, found %d" % conv
            if bad:
                ctx.violation("WSM-5", (fb.path, "array conversion"), bad + ": the library would see a different list of test cases than the caller passed "
                              "(an array holding only empty strings would even count as empty)", fb.loc(t.get("line")))
            else:
                ctx.ok("WSM-5", fb.path + ":array -> as_string of every element -> library", None, fb.loc(t.get("line")))
        ctx.floor("WSM-5", "calls of the library constructor in the wasm constructor", len(sites), 1)
    # WSM-4
    bb = methods.get("build")
    if bb is None:
        ctx.anchor_lost("WSM-4", prefix + "::build")
    else:
        leaves = ccp.Machine([lib]).run(bb)
        okb = len(leaves) == 1 and isinstance(leaves[0].value, ccp.Call) and leaves[0].value.callee == common.BUILDER + "::build"
        if okb:
            a0 = leaves[0].value.args[0]
            okb = isinstance(a0, ccp.Fld) and isinstance(a0.base, ccp.Sym) and a0.base.name == "self"
        if okb:
            ctx.ok("WSM-4", bb.path, {"returns": ccp.show(leaves[0].value)}, bb.loc())
        else:
            ctx.violation("WSM-4", (bb.path, "return"), "build() returns %s, expected the library's build() of the wrapped builder" % [ccp.show(l.value) for l in leaves], bb.loc())
    # no extra public method that writes settings without a library sibling
    known = {camel(s) for s in api["setters"]} | {"from", "build"}
    for name, b in methods.items():
        if name not in known and b.is_pub:
            ctx.note("wasm method %s has no library sibling (not a violation)" % name)
    if ctx.tier == "thorough":
        ctx.rule("VIEW-1", "every core function reachable from build() has an identical MIR dump in this view and in the default view")
        binding.cross_view(ctx, "VIEW-1", lib)
