"""C12 — the CLI is a faithful front end (wiring, channels, error discipline)."""
import re

from sa import callgraph, ccp, guards, local
from sa.facts import callee_name, norm
from . import common

RESULT_UNWRAP = re.compile(r"^std::result::Result::<T, E>::(?:unwrap|expect|unwrap_err|expect_err|unwrap_unchecked)$")
OPTION_UNWRAP = re.compile(r"^std::option::Option::<T>::(?:unwrap|expect|unwrap_unchecked)$")
LINE_SPLITTERS = ("std::io::BufRead::lines", "core::str::<impl str>::lines")


def cli_fields(bin_):
    """Cli struct field -> {flag, value_parser, ty} from the pre-expansion #[arg(..)] attributes."""
    out = {}
    for a in bin_.attrs:
        if a["kind"] != "field":
            continue
        for at in a["attrs"]:
            if at["path"] == "arg":
                m = re.search(r'\bname\s*=\s*"([^"]+)"', at["text"])
                vp = re.search(r"\bvalue_parser\s*=\s*([A-Za-z_][A-Za-z0-9_:]*)", at["text"])
                out[a["name"]] = {"flag": m.group(1) if m else None, "value_parser": vp.group(1) if vp else None,
                                  "container": a["container"], "ty": a.get("ty")}
    return out


def cli_field_of(t, cli_adt):
    """origin term -> Cli field name if it is a read of cli.<field>"""
    t = local.peel(t)
    if t[0] == "field" and t[3] == cli_adt:
        return t[1]
    return None


def find_handle_input(bin_):
    """the bin function that calls RegExpBuilder::build"""
    for b in bin_.bodies:
        for _, t in b.calls():
            if callee_name(t) == "grex::RegExpBuilder::build":
                return b
    return None


def template_of(d, operand):
    """Decode a fmt::Arguments origin: returns (Tmpl, [arg origins]) or None."""
    o = local.peel(d.operand(operand))
    if o[0] != "call" or not o[1].endswith("Arguments::new") and not re.search(r"Arguments(?:::<'a>)?::new$", o[1]):
        return None
    tb = local.peel(o[2][0])
    if not isinstance(local.const_value(tb), (bytes, bytearray)):
        return None
    arr = local.peel(o[2][1])
    args = []
    if arr[0] == "agg" and arr[1] == "array":
        for a in arr[3]:
            a = local.peel(a)
            if a[0] == "call" and "Argument::new_" in a[1]:
                args.append((a[1].rsplit("new_", 1)[1], local.peel(a[2][0])))
            else:
                args.append(("?", a))
    m = ccp.Machine([])
    holes = [ccp.FmtArg(ccp.Sym("arg%d" % i), k) for i, (k, _) in enumerate(args)]
    tm = m._arguments_new(ccp.Const(bytes(local.const_value(tb))), ccp.Agg("array", None, None, holes))
    return tm, args


def run(ctx):
    ctx.rule("CLI-1", "every RegExpBuilder setter call in the CLI is control dependent on exactly the Cli field whose documented flag stands for that setter "
                      "(pre-expansion #[arg(name=..)]); threshold/surrogate arguments come from the fields of their own flags; all 17 setter calls are present")
    ctx.rule("CLI-2", "the value printed to stdout is exactly build()'s result followed by a newline; main exits 1 only on the Err arm after printing the error to stderr")
    ctx.rule("CLI-3", "all input channels (stdin, -f file, library from_file) split with BufRead::lines / str::lines and map each line through an identity-like closure; "
                      "arguments are passed unchanged")
    ctx.rule("CLI-4", "both threshold flags use the value parser that returns Ok(v) only if v > 0")
    ctx.rule("CLI-5", "no Result::unwrap reachable from main; Option::unwrap only under its non-emptiness test; library functions with a documented panic are "
                      "called only under the negation of the panic condition")
    ctx.assume("clap parses flags as declared by the #[arg] attributes; process output is what print!/eprint! receive")
    ctx.rule("DEF-1", "every used argument-less producer of the settings (RegExpConfig::new, a derived Default once something calls it) yields the documented defaults: "
                      "the constructors `from` (CLI, bindings) and `from_file` start from the same settings")
    prog = common.view(ctx, "default")
    lib, bin_ = prog.lib, prog.bin
    common.def1(ctx, lib)
    if bin_ is None:
        ctx.anchor_lost("CLI-1", "bin crate facts")
        return
    api = common.spec("api")
    fields = cli_fields(bin_)
    if not ctx.floor("CLI-1", "Cli fields with #[arg(name=..)]", len([f for f in fields.values() if f["flag"]]), 18):
        return
    # CLI-6: relations between arguments
    ctx.rule("CLI-6", "the only clap relations between arguments (requires / conflicts_with / required_unless.. / exclusive / overrides..) are the documented ones: any other "
                      "makes the CLI reject a flag combination for which the library returns a result")
    allowed = {k: {tuple(x) for x in v} for k, v in api.get("cli_relations", {}).items() if not k.startswith("_")}
    nrel = 0
    for a in bin_.attrs:
        if a["kind"] != "field":
            continue
        for at in a["attrs"]:
            if at["path"] != "arg":
                continue
            rels = re.findall(r"\b(requires\w*|conflicts_with\w*|required\w*|exclusive|overrides_with\w*|default_value_if\w*|default_missing_value\w*|groups?)\s*=\s*(\"[^\"]*\"|\[[^\]]*\]|[A-Za-z_0-9:]+)", at["text"])
            for kind, val in rels:
                nrel += 1
                v = val.strip('"')
                if (kind, v) in allowed.get(a["name"], set()):
                    ctx.ok("CLI-6", "%s: %s = %s (documented)" % (a["name"], kind, v), None)
                else:
                    ctx.violation("CLI-6", (a["name"], "%s = %s" % (kind, v)), "argument `%s` declares %s = %s, which is not a documented relation: clap then refuses command lines "
                                  "(usage error, exit status 2) for which the library with the same settings returns a pattern" % (a["name"], kind, v))
    ctx.floor("CLI-6", "documented relations found in the argument definitions", nrel, sum(len(v) for v in allowed.values()))
    # CLI-7: defaults declared for value-taking arguments equal the library's defaults (a flag that is not given must behave like a setter that is not called)
    ctx.rule("CLI-7", "every default_value declared for a CLI argument equals the library's default for the setting it feeds (thresholds: 1)")
    ndef = 0
    for a in bin_.attrs:
        if a["kind"] != "field":
            continue
        for at in a["attrs"]:
            if at["path"] != "arg":
                continue
            for mm in re.finditer(r"\bdefault_value(?:_t|s_t|s)?\s*=\s*(\"[^\"]*\"|[A-Za-z_0-9:.]+)", at["text"]):
                ndef += 1
                val = mm.group(1).strip('"')
                if val in ("1", "1u32", "1_u32"):
                    ctx.ok("CLI-7", "%s: default %s" % (a["name"], val), None)
                else:
                    ctx.violation("CLI-7", (a["name"], "default " + val), "argument `%s` defaults to %s while the library's default for that setting is 1: a command line without the flag "
                                  "no longer corresponds to a builder on which the setter was not called" % (a["name"], val))
            if re.search(r"\bdefault_missing_value|\bdefault_value_if", at["text"]):
                ctx.undecided("CLI-7", a["name"], "conditional default in the argument definition")
    ctx.floor("CLI-7", "declared defaults", ndef, 2)
    hi = find_handle_input(bin_)
    if hi is None:
        ctx.anchor_lost("CLI-1", "bin function calling RegExpBuilder::build")
        return
    cli_adt = None
    for p in bin_.adts:
        if p.endswith("::Cli") or p == "Cli":
            cli_adt = p
    seen_setters = {}
    build_blocks = [bi for bi, t in hi.calls() if callee_name(t) == "grex::RegExpBuilder::build"]

    def classify_guards(hb, bi, in_helper):
        fi = guards.FnInfo.of(hb)
        fguards, other = [], []
        for g in [g for g in guards.guards(hb, bi) if not g["loop"]]:
            f = cli_field_of(g["origin"], cli_adt)
            if f is not None:
                fguards.append((f, guards.edge_truth(g)))
            elif g["origin"][0] == "discr":
                continue      # the Ok arm of `match input`
            else:
                # a guard that does not read a flag is accepted if its other edge can never reach build()
                # (early error return, e.g. "no test cases")
                reads_cli = any(x[0] == "field" and x[3] == cli_adt for x in local.walk(g["origin"]))
                alt = [x for x in fi.cfg.succ[g["block"]] if x != g["succ"]]
                reaches = in_helper or any(bb in fi.cfg.reachable_from(x) or bb == x for x in alt for bb in build_blocks)
                if reads_cli or reaches:
                    other.append(local.show(g["origin"]))
        return fguards, other

    # the bodies that configure the builder: the function calling build(), and bin functions it hands the builder to (`configure(&mut builder, cli)`), with the
    # guards of that hand-over added to the guards of every setter call inside
    work = [(hi, [], [], 0)]
    scanned = set()
    while work:
        hb, pre_f, pre_o, depth = work.pop(0)
        if hb.path in scanned:
            continue
        scanned.add(hb.path)
        fi = guards.FnInfo.of(hb)
        d = fi.defs
        for bi, t in hb.calls():
            n = callee_name(t) or ""
            helper = bin_.body(n)
            if helper is not None and depth < 2 and helper.kind in ("fn", "assoc_fn") and any("RegExpBuilder" in ty for ty in helper.sig_inputs):
                hf, ho = classify_guards(hb, bi, depth > 0)
                work.append((helper, pre_f + hf, pre_o + ho, depth + 1))
                continue
            if not n.startswith("grex::RegExpBuilder::") or n.endswith("::build") or n.endswith("::from"):
                continue
            setter = n.rsplit("::", 1)[1]
            if setter not in api["setters"]:
                ctx.violation("CLI-1", (hb.path, n), "CLI calls undocumented builder method %s" % setter, hb.loc(t.get("line")))
                continue
            fguards, other = classify_guards(hb, bi, depth > 0)
            fguards, other = pre_f + fguards, pre_o + other
            spec_s = api["setters"][setter]
            has_param = bool(spec_s.get("param"))
            is_threshold = "panic_if_zero" in spec_s
            want_flags = sorted(fl for fl, s in api["cli_flags"].items() if s == setter)
            want_param_flags = sorted(fl for fl, s in api["cli_flags"].items() if s == setter + "#param")
            got_flags = sorted(fields.get(f, {}).get("flag") or "?" + f for f, tr in fguards if tr is True)
            bad = []
            if other:
                bad.append("extra guard(s) %s" % other)
            if any(tr is not True for _, tr in fguards):
                bad.append("called when a flag is *absent*")
            if got_flags != want_flags:
                bad.append("guarded by flag(s) %s, documented flag(s) %s" % (["--" + x for x in got_flags], ["--" + x for x in want_flags]))
            if has_param:
                ao = d.operand(t["args"][1]) if len(t["args"]) > 1 else None
                af = cli_field_of(ao, cli_adt) if ao else None
                aflag = fields.get(af, {}).get("flag") if af else None
                if [aflag] != want_param_flags:
                    bad.append("argument comes from %s, documented: the value of --%s" % ("--%s" % aflag if aflag else local.show(ao) if ao else "nothing", want_param_flags[0] if want_param_flags else "?"))
                if is_threshold and af and fields[af].get("value_parser") is None:
                    bad.append("threshold flag --%s has no value parser" % aflag)
            if bad:
                ctx.violation("CLI-1", (hb.path, setter), "; ".join(bad), hb.loc(t.get("line")))
            else:
                ctx.ok("CLI-1", "%s->%s" % (hb.path, setter), {"flags": want_flags or "unconditional", "param": want_param_flags}, hb.loc(t.get("line")))
            seen_setters[setter] = seen_setters.get(setter, 0) + 1
    missing = [s for s in api["setters"] if s not in seen_setters]
    for s in missing:
        ctx.violation("CLI-1", (hi.path, "missing " + s), "no call of RegExpBuilder::%s: its flag(s) %s have no effect" % (
            s, ["--" + fl for fl, v in api["cli_flags"].items() if v.split("#")[0] == s]), hi.loc())
    ctx.floor("CLI-1", "setter calls in the CLI", sum(seen_setters.values()), 17)

    # ---- CLI-2
    fi = guards.FnInfo.of(hi)
    d = fi.defs
    prints = [(bi, t) for bi, t in hi.calls() if (callee_name(t) or "") == "std::io::_print"]
    if ctx.floor("CLI-2", "stdout writes in " + hi.path, len(prints), 1):
        for bi, t in prints:
            r = template_of(d, t["args"][0])
            if r is None:
                ctx.undecided("CLI-2", hi.path, "cannot decode println! template", hi.loc(t.get("line")))
                continue
            tm, args = r
            okp = len(tm.parts) == 2 and isinstance(tm.parts[0], ccp.Hole) and tm.parts[1] == "\n" and len(args) == 1 and args[0][0] == "display"
            val = args[0][1] if args else None
            is_build = val is not None and val[0] == "call" and val[1] == "grex::RegExpBuilder::build"
            if okp and is_build:
                ctx.ok("CLI-2", hi.path + ":println", {"template": "{}\\n", "argument": "RegExpBuilder::build(..)"}, hi.loc(t.get("line")))
            else:
                ctx.violation("CLI-2", (hi.path, "stdout"), "stdout receives template %s with %s; documented: build()'s result and one newline"
                              % (ccp.show(tm), local.show(val) if val else "no argument"), hi.loc(t.get("line")))
        if len(prints) != 1:
            ctx.violation("CLI-2", (hi.path, "stdout writes"), "%d writes to stdout, expected one" % len(prints), hi.loc())
    mb = bin_.body("main")
    if mb is None:
        ctx.anchor_lost("CLI-2", "main")
    else:
        leaves = ccp.Machine([bin_]).run(mb, [])
        ok_exit = True
        n_exit = 0
        for l in leaves:
            calls = [e for e in l.events if e["k"] in ("call", "panic")]
            names = [e["callee"] for e in calls]
            exits = [e for e in calls if e["callee"] == "std::process::exit"]
            if exits:
                n_exit += 1
                code = exits[0]["args"][0] if exits[0]["args"] else None
                err_arm = any("Err" in a or "1" in v for a, v in l.label if a.startswith("discr("))
                if not (isinstance(code, ccp.Const) and code.v != 0) or "std::io::_eprint" not in names:
                    ok_exit = False
                    ctx.violation("CLI-2", ("main", "exit"), "exit path: code %s, stderr written: %s" % (ccp.show(code), "std::io::_eprint" in names), mb.loc())
            else:
                if l.kind == "return" and "std::io::_eprint" in names:
                    ok_exit = False
                    ctx.violation("CLI-2", ("main", "error without exit status"), "an error is printed but the process exits 0", mb.loc())
        if n_exit == 0:
            ctx.violation("CLI-2", ("main", "no failing exit"), "main never exits with a non-zero status", mb.loc())
        elif ok_exit:
            ctx.ok("CLI-2", "main:exit discipline", {"paths": len(leaves), "failing_exit_paths": n_exit}, mb.loc())

    # ---- CLI-3 channels
    chan = 0
    oi = None
    for b in bin_.bodies:
        if any(callee_name(t) == hi.path for _, t in b.calls()):
            pass
    def root_of(cr, b):
        return cr.body(b.parent) if b.kind == "closure" and cr.body(b.parent) is not None else b
    chan_fns = [(bin_, b) for b in bin_.bodies if b.kind in ("fn", "closure") and any((callee_name(t) or "") in LINE_SPLITTERS for _, t in b.calls())]
    chan_fns += [(lib, b) for b in lib.bodies if b.kind in ("fn", "assoc_fn", "closure") and root_of(lib, b).is_pub
                 and any((callee_name(t) or "") in LINE_SPLITTERS for _, t in b.calls())]
    for cr, b in chan_fns:
        dd = local.Defs(b)
        for bi, t in b.calls():
            n = callee_name(t) or ""
            if n not in LINE_SPLITTERS:
                continue
            chan += 1
            # producer: the text that is split must be the input as read (no trim / replace / case mapping on the way, also not inside a helper that reads it)
            rewriting = []

            def walk_pruned(o):
                # sub-terms of o, not descending into the arguments of a reader (the content read does not derive from the path text)
                yield o
                if o[0] == "call" and re.search(r"^std::fs::read\w*$|^std::fs::File::open$|std::io::Read::read\w*$", o[1]):
                    return
                for ch in o[1:]:
                    if isinstance(ch, tuple):
                        yield from walk_pruned(ch)
                    elif isinstance(ch, list):
                        for y in ch:
                            if isinstance(y, tuple):
                                yield from walk_pruned(y)

            def producers(o, cr_, depth=0):
                for x in walk_pruned(o):
                    if x[0] != "call":
                        continue
                    if re.search(r"<impl str>::(?:trim\w*|replace\w*|to_lowercase|to_uppercase|to_ascii_\w+|strip_\w+|split_at\w*|get)$|String::(?:truncate|pop|remove|retain|drain)$", x[1]):
                        rewriting.append(x[1])
                    hb = cr_.body(x[1])
                    if hb is not None and depth < 3 and not hb.derived:
                        producers(local.Defs(hb).local(0), cr_, depth + 1)
            if t["args"]:
                producers(dd.operand(t["args"][0]), cr)
            if rewriting:
                ctx.violation("CLI-3", (b.path, "input rewritten before splitting: " + rewriting[0].rsplit("::", 1)[-1]),
                              "the text of this channel passes through %s before it is split into lines: the first/last test case loses characters that the same test case keeps "
                              "when given as an argument or through another channel" % rewriting[0], b.loc(t.get("line")))
            # consumer chain: collect(map(lines, closure)) / collect::<Result<..>>(lines)
            users = []
            for bj, t2 in b.calls():
                if t2["args"] and any(x[0] == "call" and x[3] == bi for x in local.walk(dd.operand(t2["args"][0]))):
                    users.append((bj, t2))
            names = [ordertaint_seg(callee_name(u[1]) or "") for u in users]
            okc = True
            detail = []
            for bj, t2 in users:
                seg = ordertaint_seg(callee_name(t2) or "")
                if seg == "map":
                    clo = dd.operand(t2["args"][1])
                    if clo[0] == "agg" and clo[1] == "closure" and cr.body(clo[2]) is not None:
                        r = local.Defs(cr.body(clo[2])).local(0)
                        inner = r
                        if r[0] == "call" and re.search(r"to_string$|to_owned$|Result::<T, E>::unwrap$|::into$|String::from$", r[1]) and local.peel(r[2][0]) == ("param", 2):
                            detail.append("map(%s)" % r[1].rsplit("::", 1)[-1])
                        else:
                            okc = False
                            detail.append("map closure transforms the line: %s" % local.show(r))
                    elif clo[0] == "const" and isinstance(clo[2], dict) and clo[2].get("t") == "fn":
                        # a function item instead of a closure: map(String::from) / map(str::to_string) / map(ToOwned::to_owned) / map(Into::into)
                        fp, fa = clo[2].get("path") or "", [norm(a) for a in clo[2].get("args") or []]
                        ident = (fp in ("std::convert::From::from", "std::convert::Into::into") and sorted(fa) == ["&str", "std::string::String"]) \
                            or (fp in ("std::string::ToString::to_string", "std::borrow::ToOwned::to_owned") and fa[:1] == ["str"])
                        if ident:
                            detail.append("map(%s)" % fp.rsplit("::", 1)[-1])
                        else:
                            okc = None if okc else okc
                            detail.append("map through the function %s%s, which this rule does not know" % (fp, fa))
                    else:
                        okc = None if okc else okc
                        detail.append("map through a value that is neither a closure nor a function item")
                elif seg in ("collect_vec", "collect"):
                    detail.append(seg)
                else:
                    okc = False
                    detail.append("unexpected consumer " + seg)
            if okc and users:
                ctx.ok("CLI-3", "%s:%s" % (b.path, n.rsplit("::", 1)[-1] + "#%d" % bi), {"chain": detail}, b.loc(t.get("line")))
            elif okc is None:
                ctx.undecided("CLI-3", "%s:%s" % (b.path, n.rsplit("::", 1)[-1]), "; ".join(detail), b.loc(t.get("line")))
            else:
                ctx.violation("CLI-3", (b.path, n), "line channel is not lines() -> identity map -> collect: %s" % detail, b.loc(t.get("line")))
        # forbidden alternative splitters in the same function
        for bi, t in b.calls():
            n = callee_name(t) or ""
            if re.search(r"core::str::<impl str>::(?:split|split_terminator|split_whitespace|split_ascii_whitespace|rsplit|splitn)$", n):
                ctx.violation("CLI-3", (b.path, n), "input is split by %s: channels would disagree on line endings" % n, b.loc(t.get("line")))
    ctx.floor("CLI-3", "line-splitting channels (stdin, -f, from_file)", chan, 3)
    # argument channel: Ok(cli.input.clone())
    oi_b = [b for b in bin_.bodies if b.kind == "fn" and any("Cli" in ty for ty in b.sig_inputs) and "Vec<std::string::String>" in (b.sig_output or "")
            and len(b.sig_inputs) == 1]
    for b in oi_b:
        dd = local.Defs(b)
        found = False
        for _, blk in b.iter_blocks():
            for s in blk["stmts"]:
                if s["k"] == "assign" and s["place"]["l"] == 0 and s["rv"]["k"] == "aggregate" and s["rv"].get("variant") == "Ok":
                    o = dd.operand(s["rv"]["ops"][0])
                    if o[0] == "call" and o[1].endswith("Clone>::clone") and cli_field_of(o[2][0], cli_adt) is not None:
                        found = True
                        ctx.ok("CLI-3", b.path + ":arguments passed unchanged", {"value": local.show(o)}, b.loc(s.get("line")))
        if not found:
            ctx.violation("CLI-3", (b.path, "argument channel"), "command-line test cases are not passed through unchanged (Ok(cli.<input>.clone()))", b.loc())

    # ---- CLI-4
    parsers = {f["value_parser"] for f in fields.values() if f.get("value_parser")}
    for pname in sorted(parsers):
        pb = [b for b in bin_.bodies if b.path.endswith("::" + pname) or b.path == pname]
        if not pb:
            ctx.anchor_lost("CLI-4", "value parser " + pname)
            continue
        pb = pb[0]
        leaves = ccp.Machine([bin_]).run(pb)
        okl = []
        bad = None
        for l in leaves:
            if l.kind != "return":
                continue
            v = l.value
            if isinstance(v, ccp.Agg) and v.label and v.label.endswith("::Ok"):
                pos = [(a, val) for a, val in l.label if re.match(r"^(?:Gt|Ge|Ne|Eq|Lt|Le)\(", a)]
                good = any((a.startswith("Gt(") and a.endswith(", 0)") and val == "True") or (a.startswith("Ge(") and a.endswith(", 1)") and val == "True")
                           or (a.startswith("Eq(") and a.endswith(", 0)") and val == "False") or (a.startswith("Ne(") and a.endswith(", 0)") and val == "True")
                           for a, val in pos)
                # `Ok(0) => Err(..), Ok(v) => Ok(v)`: zero excluded by pattern on the unsigned payload
                if not good:
                    good = any(val.startswith("not in") and re.search(r"\b0\b", val) and re.search(r"\.Ok\.0$|parse", a) for a, val in l.label)
                if not good:
                    bad = "returns Ok on path %s" % (l.label,)
                okl.append(l)
        if bad or not okl:
            ctx.violation("CLI-4", (pb.path, "zero accepted"), "value parser %s: accepts a value without testing it is positive" % (bad or "has no Ok path"), pb.loc())
        else:
            ctx.ok("CLI-4", pb.path, {"ok_paths": len(okl), "requires": "v > 0"}, pb.loc())
    thr = [f for f, v in fields.items() if v["flag"] in ("min-repetitions", "min-substring-length")]
    for f in thr:
        if not fields[f].get("value_parser"):
            ctx.violation("CLI-4", (cli_adt or "Cli", f), "threshold flag --%s has no value parser: zero reaches the library's documented panic" % fields[f]["flag"])
    ctx.floor("CLI-4", "threshold flags", len(thr), 2)

    # ---- CLI-8: no lossy decoding of input
    ctx.rule("CLI-8", "no input channel decodes bytes lossily (String::from_utf8_lossy / to_string_lossy / from_utf8_unchecked): invalid UTF-8 must end in an error, not in U+FFFD test cases")
    nl = 0
    for b8 in bin_.bodies:
        for bi8, t8 in b8.calls():
            n8 = callee_name(t8) or ""
            if re.search(r"::from_utf8_lossy$|::to_string_lossy$|::from_utf8_unchecked$|::from_utf8_lossy_owned$", n8):
                nl += 1
                ctx.violation("CLI-8", (b8.path, n8.rsplit("::", 1)[-1]), "input bytes are decoded with %s: invalid UTF-8 is silently replaced by U+FFFD (or accepted unchecked) and a pattern is "
                              "printed with exit status 0, where the library and the other channels report `not valid UTF-8`" % n8, b8.loc(t8.get("line")))
    if not nl:
        ctx.ok("CLI-8", "bin crate: no lossy decoder", {"bodies": len(bin_.bodies)}, None)
    # ---- CLI-5
    cg = callgraph.CallGraph(bin_)
    reach = cg.reachable(["main"])
    for b in bin_.bodies:
        if b.path not in reach or b.derived or b.from_expansion:
            continue
        fi2 = guards.FnInfo.of(b)
        for bi, t in b.calls():
            n = callee_name(t) or ""
            if RESULT_UNWRAP.match(n):
                ctx.violation("CLI-5", (b.path, "Result::unwrap"), "unwrap of %s: unusable input ends in a panic instead of an error message"
                              % local.show(fi2.defs.operand(t["args"][0]))[:140], b.loc(t.get("line")))
            elif OPTION_UNWRAP.match(n):
                o = local.peel(fi2.defs.operand(t["args"][0]))
                okg = False
                if o[0] == "call" and o[1].endswith("::first"):
                    vec = strip_deref(o[2][0])
                    for g in guards.guards(b, bi):
                        go = local.peel(g["origin"])
                        if go[0] == "call" and go[1].endswith("::is_empty") and strip_deref(go[2][0]) == vec and guards.edge_truth(g) is False:
                            okg = True
                if okg:
                    ctx.ok("CLI-5", b.path + ":first().unwrap() under !is_empty()", None, b.loc(t.get("line")))
                else:
                    ctx.violation("CLI-5", (b.path, "Option::unwrap"), "Option::unwrap of %s without a dominating emptiness test" % local.show(o)[:120], b.loc(t.get("line")))
            elif n == "grex::RegExpBuilder::from":
                vec = strip_deref(fi2.defs.operand(t["args"][0]))
                okg = False
                for g in guards.guards(b, bi):
                    go = local.peel(g["origin"])
                    if go[0] == "call" and go[1].endswith("::is_empty") and strip_deref(go[2][0]) == vec and guards.edge_truth(g) is False:
                        okg = True
                if okg:
                    ctx.ok("CLI-5", b.path + ":RegExpBuilder::from under !is_empty()", None, b.loc(t.get("line")))
                else:
                    ctx.violation("CLI-5", (b.path, "grex::RegExpBuilder::from"),
                                  "RegExpBuilder::from panics on an empty list (documented) and is called without a dominating non-emptiness test: "
                                  "an empty input file ends in a panic, not an error message", b.loc(t.get("line")))
            elif n == "grex::RegExpBuilder::from_file":
                ctx.violation("CLI-5", (b.path, n), "from_file panics on unreadable files", b.loc(t.get("line")))
    ctx.ok("CLI-5", "functions reachable from main", {"functions": len(reach)})


def strip_deref(t):
    t = local.peel(t)
    while t[0] == "call" and (t[1].endswith("Deref>::deref") or t[1].endswith("::as_slice")) and t[2]:
        t = local.peel(t[2][0])
    return t


def ordertaint_seg(name):
    return name.rsplit("::", 1)[-1]
