"""Sibling agreement between a language binding (wasm / python) and the core builder."""
import re

from sa import ccp, guards, local
from sa.facts import callee_name, norm
from . import common


def write_field(target):
    """last field name written through any chain rooted in the receiver (Sym or deref(_mut)(Sym))"""
    parts = []
    v = target
    while isinstance(v, ccp.Fld):
        parts.append(v.name)
        v = v.base
    if isinstance(v, ccp.Call) and re.search(r"Deref(?:Mut)?>::deref(?:_mut)?$", v.callee) and v.args:
        v = v.args[0]
    if isinstance(v, ccp.Sym):
        return tuple(reversed(parts))
    return None


def leaf_writes(leaf):
    out = []
    for e in leaf.events:
        if e["k"] == "write" and isinstance(e.get("target"), ccp.V):
            out.append((write_field(e["target"]), e["value"]))
    return out


def value_class(v, params):
    v = ccp.strip_ref(v)
    if isinstance(v, ccp.CastV):
        v = v.a
    if isinstance(v, ccp.Const) and v.v is True:
        return "true"
    if isinstance(v, ccp.Sym) and v.name in params:
        return "param"
    return "other:" + ccp.show(v)


def const_text(v):
    if isinstance(v, ccp.Tmpl) and v.is_const():
        return v.text()
    return None


def err_message(val):
    """message constant inside Result::Err(<ctor>(msg)) / Err(msg)"""
    if isinstance(val, ccp.Agg) and val.label and val.label.endswith("::Err") and val.fields:
        x = val.fields[0]
        if isinstance(x, ccp.Call) and x.args:
            return const_text(x.args[0]), x.callee
        return const_text(x), None
    return None, None


def stale_copy(leaf, body=None):
    """the returned clone of the receiver was taken before the last write to it.  Clones that are not returned (e.g. the discarded
    result of another setter called for its effect) do not count: the returned one is the clone call the return place is defined by."""
    from sa import local
    last_write = max([i for i, e in enumerate(leaf.events) if e["k"] == "write"], default=-1)
    clones = [i for i, e in enumerate(leaf.events) if e["k"] == "call" and e["callee"].endswith("Clone>::clone")]
    if body is not None:
        blocks = {x[3] for x in local.walk(local.Defs(body).local(0)) if x[0] == "call" and x[1].endswith("Clone>::clone") and len(x) > 3}
        mine = [i for i in clones if leaf.events[i].get("fn") == body.path and leaf.events[i].get("block") in blocks]
        if mine:
            clones = mine
    return bool(clones) and min(clones) < last_write


def other_effects(lib, leaf):
    """effects of a setter beyond writing settings: calls of crate functions that take a `&mut` parameter and receive (part of) the receiver"""
    out = []
    for e in leaf.events:
        if e["k"] != "call" or e["callee"].endswith("Clone>::clone"):
            continue
        cb = lib.body(e["callee"])
        if cb is None or not any(t.startswith("&mut") for t in cb.sig_inputs):
            continue
        rooted = []
        for a in e.get("args") or []:
            pth = common.fld_path(a) if isinstance(a, ccp.V) else None
            if pth and pth[0] in ("self", "self_"):
                rooted.append(pth[-1])
        if rooted:
            out.append("%s(%s)" % (e["callee"], ", ".join(rooted)))
    return sorted(out)


def check_binding(ctx, lib, rid_prefix, methods, name_of, self_names, expected_return, thresholds_signed):
    """methods: dict binding-method-name -> Body; name_of(core_setter) -> binding method name."""
    api = common.spec("api")
    core = common.setter_effects(lib)
    files = {b.file for b in methods.values()}

    def inl(n):
        # private helpers of the binding module are part of the setter's body
        # ... and so are the binding's own setters (one written in terms of others)
        x = lib.body(n)
        if x is None or x.file not in files or x.kind not in ("fn", "assoc_fn") or x.impl_trait:
            return False
        return not x.is_pub or x.path in own
    own = {b.path for b in methods.values()}
    m = ccp.Machine([lib], inline=inl)
    n_ok = 0
    for setter, sp in api["setters"].items():
        if sp.get("cli_only"):
            continue
        bname = name_of(setter)
        b = methods.get(bname)
        rid = rid_prefix + "-1"
        if b is None:
            ctx.violation(rid, (rid_prefix, "missing " + bname), "the binding has no method %s for the library's %s" % (bname, setter))
            continue
        ce = core.get(setter)
        if ce is None:
            continue
        core_ret = [l for l in ce["leaves"] if l.kind == "return"][-1]
        core_w = sorted((w[0][-1], value_class(w[1], {"quantity", "length", "use_surrogate_pairs"} | set(ce["body"].locals[i].get("name") for i in range(1, ce["body"].arg_count + 1))))
                        for w in common.leaf_writes(core_ret) if w[0])
        leaves = m.run(b)
        params = {b.locals[i].get("name") for i in range(1, b.arg_count + 1)} - set(self_names)
        rets = [l for l in leaves if l.kind == "return"]
        is_thr = "panic_if_zero" in sp
        if not is_thr:
            if len(rets) != 1 or len(leaves) != 1:
                ctx.violation(rid, (b.path, "paths"), "setter has %d paths, expected one unconditional write" % len(leaves), b.loc())
                continue
            w = sorted((x[0][-1] if x[0] else "?", value_class(x[1], params)) for x in leaf_writes(rets[0]))
            if w != core_w:
                ctx.violation(rid, (b.path, "writes"), "binding writes %s, the library's %s writes %s" % (w, setter, core_w), b.loc())
                continue
            ce_eff, b_eff = other_effects(lib, core_ret), other_effects(lib, rets[0])
            if ce_eff != b_eff:
                ctx.violation(rid, (b.path, "effects"), "the library's %s does more than store the setting: it also calls %s; the binding %s: a builder configured through the binding "
                              "behaves differently from one configured through the library" % (setter, ce_eff or "nothing", ("calls " + str(b_eff)) if b_eff else "only writes the field"), b.loc())
                continue
            if stale_copy(rets[0], b):
                ctx.violation(rid, (b.path, "stale copy"), "the returned copy is taken before the setting is stored: the caller receives a builder without it", b.loc())
                continue
            if not expected_return(rets[0].value, False):
                ctx.violation(rid, (b.path, "return"), "setter returns %s" % ccp.show(rets[0].value), b.loc())
                continue
            n_ok += 1
            ctx.ok(rid, "%s ~ %s" % (b.path, setter), {"writes": w}, b.loc())
        else:
            rid2 = rid_prefix + "-2"
            okp = [l for l in rets if leaf_writes(l)]
            errp = [l for l in rets if not leaf_writes(l)]
            if len(okp) != 1 or len(errp) != 1 or len(leaves) != 2:
                ctx.violation(rid2, (b.path, "paths"), "threshold method has %d paths (%d writing), expected one writing and one error path" % (len(leaves), len(okp)), b.loc())
                continue
            okl, erl = okp[0], errp[0]
            w = sorted((x[0][-1] if x[0] else "?", value_class(x[1], params)) for x in leaf_writes(okl))
            if w != core_w:
                ctx.violation(rid2, (b.path, "writes"), "binding writes %s, the library's %s writes %s" % (w, setter, core_w), b.loc())
                continue
            # guard: write only for param >= 1
            if len(okl.label) != 1:
                ctx.violation(rid2, (b.path, "guard"), "write is guarded by %s" % (okl.label,), b.loc())
                continue
            atom, val = okl.label[0]
            mm = re.match(r"^(Lt|Le|Eq|Ne|Gt|Ge)\((\w+), (-?\d+)\)$", atom)
            good = False
            if mm and mm.group(2) in params:
                op, k, truth = mm.group(1), int(mm.group(3)), val == "True"
                # set of values for which the write happens, tested on the boundary values
                def holds(x):
                    r = {"Lt": x < k, "Le": x <= k, "Eq": x == k, "Ne": x != k, "Gt": x > k, "Ge": x >= k}[op]
                    return r == truth
                dom = [-2, -1, 0, 1, 2, 3] if thresholds_signed else [0, 1, 2, 3]
                good = all(holds(x) == (x >= 1) for x in dom)
            if not good:
                ctx.violation(rid2, (b.path, "guard"), "the threshold is stored when %s is %s; documented: only for values >= 1" % (atom, val), b.loc())
                continue
            msg, ctor = err_message(erl.value)
            if msg != sp["panic_if_zero"]:
                ctx.violation(rid2, (b.path, "message"), "error message is %r, the library's message is %r" % (msg, sp["panic_if_zero"]), b.loc())
                continue
            if stale_copy(okl, b):
                ctx.violation(rid2, (b.path, "stale copy"), "the returned copy is taken before the threshold is stored", b.loc())
                continue
            if not expected_return(okl.value, True):
                ctx.violation(rid2, (b.path, "return"), "threshold method returns %s" % ccp.show(okl.value), b.loc())
                continue
            n_ok += 1
            ctx.ok(rid2, "%s ~ %s" % (b.path, setter), {"writes": w, "stored_iff": "%s == %s" % (atom, val), "error": msg}, b.loc())
    return n_ok


def cross_view(ctx, rid, lib, other_view="default"):
    """VIEW-1: the library core analysed in this view is the same program as in the default view: every function
    reachable from RegExpBuilder::build has an identical MIR dump in both views (so the per-property results obtained on
    the default view carry over to the binding's build)."""
    import hashlib
    import json
    from sa import callgraph
    other = common.view(ctx, other_view).lib
    cg = callgraph.CallGraph(lib)
    reach = cg.reachable([common.BUILDER + "::build"])
    n = 0
    diff = []
    missing = []
    for p in sorted(reach):
        a = lib.body(p)
        b = other.body(p)
        if b is None:
            missing.append(p)
            continue
        import re as _re
        canon = lambda m: _re.sub(r"\b[a-z_0-9]+::__rt::(core|std|alloc)::", r"\1::", json.dumps(m, sort_keys=True))
        ha = hashlib.sha1(canon(a.mir).encode()).hexdigest()
        hb = hashlib.sha1(canon(b.mir).encode()).hexdigest()
        n += 1
        if ha != hb:
            diff.append(p)
    if diff or missing:
        ctx.undecided(rid, "core functions", "the library core differs between this view and the %s view (%s): results established on the %s view do not carry over"
                      % (other_view, (diff + missing)[:4], other_view))
    else:
        ctx.ok(rid, "core identical in both views", {"functions_compared": n})
