"""MIN-1..5 — necessary conditions inside the partition-refinement minimiser (shared by C01 and C02).

Merging two states is only sound if no word distinguishes them; the refinement reaches that fixpoint only if
  MIN-1  the initial partition separates final from non-final states and keeps both halves,
  MIN-2  a block Y hit by the parent set X is replaced by X∩Y *and* Y\\X (both re-inserted where Y was removed),
  MIN-3  the second half is Y minus X (receiver = block, argument = parent set), not X minus Y,
  MIN-4  the work list gets both halves when Y was pending, and at least one half otherwise,
  MIN-5  the classes handed to the rebuild are the partition filtered by non-emptiness only.
Breaking any of them leaves inequivalent states merged (over-/under-matching) or loses states; none of them is the
behaviour itself: that the loop computes the coarsest stable partition for every automaton is not decided."""
import re

from sa import guards, local
from sa.facts import callee_name, norm

SET_OF_STATES = re.compile(r"^std::collections::(?:HashSet|BTreeSet)<petgraph::(?:prelude|graph|stable_graph)::NodeIndex(?:<[^>]*>)?(?:, [^>]*)?>$")


def _is_state_set(ty):
    return bool(ty) and bool(SET_OF_STATES.match(ty.lstrip("&")))


def _calls_in(o, pred):
    return [x for x in local.walk(o) if x[0] == "call" and pred(x[1])]


def _avoiding_path(cfg, start, target, avoid):
    """is `target` reachable from `start` without entering a block of `avoid`?"""
    if start in avoid:
        return False
    seen = {start}
    st = [start]
    while st:
        x = st.pop()
        if x == target:
            return True
        for y in cfg.succ.get(x, []):
            if y not in seen and y not in avoid:
                seen.add(y)
                st.append(y)
    return target in seen


def rules(ctx):
    ctx.rule("MIN-1", "the initial partition is {final, non-final}: Iterator::partition over all node indices by membership in the final-state set, both halves kept")
    ctx.rule("MIN-2", "a block split by the parent set is replaced by the intersection and the difference, both inserted where the block was removed")
    ctx.rule("MIN-3", "the difference half is block minus parent set (receiver derives from the partition, argument from the parent-state function)")
    ctx.rule("MIN-4", "work list update: both halves when the split block was pending, at least one half otherwise (every path to the next replacement)")
    ctx.rule("MIN-7", "a block is recorded for splitting only on a path where both its intersection with the parent set and its difference from it are known to be non-empty")
    ctx.rule("MIN-6", "the refinement loop is left only when the work list is empty (no round limit or other early exit)")
    ctx.rule("MIN-5", "the classes handed to the rebuild are the partition, filtered by non-emptiness only")


def check(ctx, lib):
    gens = [b for b in lib.bodies if b.kind == "assoc_fn" and len(b.sig_inputs) == 1 and b.sig_inputs[0].startswith("&dfa::Dfa")
            and (b.sig_output or "").startswith("std::vec::Vec<") and _is_state_set((b.sig_output or "")[len("std::vec::Vec<"):-1])]
    if len(gens) != 1:
        ctx.anchor_lost("MIN-1", "function (&Dfa) -> Vec<set of states> producing the initial partition (found %d)" % len(gens))
        return
    G = gens[0]
    # ---- MIN-1
    d = local.Defs(G)
    part = [(bi, t) for bi, t in G.calls() if (callee_name(t) or "").endswith("Iterator::partition")]
    if len(part) != 1:
        # loop form: two sets filled under the final-state test, one per truth value
        fiG = guards.FnInfo.of(G)
        ins = []
        for bi, t in G.calls():
            if not re.search(r"(?:HashSet|BTreeSet)::<[^>]*>::insert$", callee_name(t) or ""):
                continue
            item = d.operand(t["args"][1])
            over_all = bool(_calls_in(item, lambda n: n.endswith("::node_indices")))
            truth = None
            for g in guards.guards(G, bi):
                o = local.peel(g["origin"])
                neg = False
                while o[0] == "unop" or (o[0] == "call" and o[1].endswith("Not>::not")):
                    neg = not neg
                    o = local.peel(o[2] if o[0] == "unop" else o[2][0])
                if o[0] == "call" and re.search(r"(?:HashSet|BTreeSet)::<[^>]*>::contains$", o[1]) and any(y[0] == "field" and y[3] == "dfa::Dfa" for y in local.walk(o[2][0])) \
                        and _calls_in(o[2][1], lambda n: n.endswith("NodeIndex::<Ix>::index")) and fiG.cfg.edge_dominates(g["block"], g["succ"], bi):
                    tv = guards.edge_truth(g)
                    if tv is not None:
                        truth = (tv != neg)
            tgt = t["args"][0].get("place", {}).get("l")
            root = tgt
            from sa.ordertaint import _mut_target_local
            r_ = _mut_target_local(G, tgt) if tgt is not None else None
            ins.append((bi, over_all, truth, r_ if r_ is not None else root))
        truths = sorted({x[2] for x in ins if x[2] is not None})
        if not ins:
            ctx.undecided("MIN-1", G.path, "the initial partition is built neither by Iterator::partition nor by guarded inserts", G.loc())
        elif not all(x[1] for x in ins):
            ctx.violation("MIN-1", (G.path, "domain"), "the initial partition does not range over all node indices of the automaton", G.loc())
        elif any(x[2] is None for x in ins):
            ctx.violation("MIN-1", (G.path, "criterion"), "a state is put into a block of the initial partition without the final-state test deciding which: final and non-final "
                          "states can start in one block and be merged", G.loc())
        elif truths != [False, True] or len({x[3] for x in ins}) < 2:
            ctx.violation("MIN-1", (G.path, "halves"), "only one side of the final/non-final split is collected (test values %s): the states of the other side vanish" % truths, G.loc())
        else:
            ctx.ok("MIN-1", G.path, {"criterion": "guarded inserts under final_state_indices.contains(state.index()) == true / false", "halves": 2}, G.loc())
    else:
        bi, t = part[0]
        recv = d.operand(t["args"][0])
        clo = local.peel(d.operand(t["args"][1]))
        over_all = bool(_calls_in(recv, lambda n: n.endswith("::node_indices")))
        by_final = False
        if clo[0] == "agg" and clo[1] == "closure" and lib.body(clo[2]) is not None:
            r = local.Defs(lib.body(clo[2])).local(0)
            for x in _calls_in(r, lambda n: re.search(r"(?:HashSet|BTreeSet)::<[^>]*>::contains$", n) is not None):
                rcv = [y for y in local.walk(x[2][0]) if y[0] == "field" and y[3] == "dfa::Dfa"]
                arg = _calls_in(x[2][1], lambda n: n.endswith("NodeIndex::<Ix>::index")) and any(y[0] == "param" for y in local.walk(x[2][1]))
                if rcv and arg:
                    fld = rcv[0][1]
                    fty = [f["ty"] for f in lib.adts["dfa::Dfa"]["variants"][0]["fields"] if f["name"] == fld]
                    if fty and re.search(r"Set<usize", norm(fty[0])):
                        by_final = True
        halves = set()
        for _, blk in G.iter_blocks():
            for s in blk["stmts"]:
                if s["k"] == "assign" and s["rv"]["k"] == "aggregate" and s["rv"].get("agg") == "array":
                    for op in s["rv"]["ops"]:
                        o = local.peel(d.operand(op))
                        if o[0] == "field" and o[1] in (0, 1, "0", "1") and _calls_in(o, lambda n: n.endswith("Iterator::partition")):
                            halves.add(int(o[1]))
        if not over_all:
            ctx.violation("MIN-1", (G.path, "domain"), "the initial partition does not range over all node indices of the automaton", G.loc(t.get("line")))
        elif not by_final:
            ctx.violation("MIN-1", (G.path, "criterion"), "the initial partition is not split by membership of the state's index in the final-state set: final and non-final "
                          "states start in one block and can be merged", G.loc(t.get("line")))
        elif halves != {0, 1}:
            ctx.violation("MIN-1", (G.path, "halves"), "only part of the initial partition is kept (halves %s): the states of the dropped half vanish from the automaton" % sorted(halves), G.loc(t.get("line")))
        else:
            ctx.ok("MIN-1", G.path, {"criterion": "final_state_indices.contains(state.index())", "halves": 2}, G.loc(t.get("line")))
    # ---- the minimiser
    Ms = [b for b in lib.bodies if b.kind == "assoc_fn" and any(callee_name(t) == G.path for _, t in b.calls())]
    if len(Ms) != 1:
        ctx.anchor_lost("MIN-2", "the function refining the initial partition (found %d)" % len(Ms))
        return
    M = Ms[0]
    fi = guards.FnInfo.of(M)
    dm = fi.defs

    def from_partition(o):
        return bool(_calls_in(o, lambda n: n == G.path))

    def from_parents(o):
        return any(x[0] == "call" and lib.body(x[1]) is not None and _is_state_set(lib.body(x[1]).sig_output) for x in local.walk(o))

    # tuples (block, X∩Y, Y\X) recorded for replacement
    recs = []
    for bi, t in M.calls():
        if not (callee_name(t) or "").endswith("Vec::<T, A>::push") or len(t["args"]) != 2:
            continue
        v = local.peel(dm.operand(t["args"][1]))
        if v[0] == "agg" and v[1] == "tuple" and len(v[3]) == 3:
            recs.append((bi, t, v, local.peel(dm.operand(t["args"][0]))))
    if not ctx.floor("MIN-2", "recorded replacements (block, intersection, difference)", len(recs), 1):
        return
    def subst(o, args):
        if not isinstance(o, tuple):
            return o
        if o[0] == "param" and isinstance(o[1], int) and 1 <= o[1] <= len(args):
            return args[o[1] - 1]
        return tuple([subst(x, args) if isinstance(x, tuple) else ([subst(y, args) if isinstance(y, tuple) else y for y in x] if isinstance(x, list) else x) for x in o])

    def through_helper(o):
        """field k of a call to a crate helper returning a tuple -> that component of the helper's result, parameters replaced by the call's arguments"""
        p_ = local.peel(o)
        if p_[0] == "field" and p_[1] in (0, 1, 2, "0", "1", "2"):
            c_ = local.peel(p_[2])
            if c_[0] == "call" and lib.body(c_[1]) is not None and not lib.body(c_[1]).derived:
                r = local.peel(local.Defs(lib.body(c_[1])).local(0))
                if r[0] == "agg" and r[1] == "tuple" and int(p_[1]) < len(r[3]):
                    return subst(r[3][int(p_[1])], c_[2])
        return o

    # ---- MIN-7: a block is split only when both halves are non-empty
    def half_test(g):
        """(half, 'empty'|'nonempty') stated by a guard edge about X∩Y ('inter') or Y\\X ('diff'); None when the guard says nothing recognisable about them"""
        o = local.peel(g["origin"])
        neg = False
        while o[0] == "unop" and o[1] == "Not":
            neg, o = not neg, local.peel(o[2])
        tv = guards.edge_truth(g)
        if tv is None:
            return None
        which = zero = None
        if o[0] == "binop" and o[1] in ("Eq", "Ne") and any(local.const_value(local.peel(x)) == 0 for x in o[2:4]):
            other = [x for x in o[2:4] if local.const_value(local.peel(x)) != 0]
            if other:
                w = through_helper(other[0])
                if _calls_in(w, lambda n: n.endswith("::intersection")):
                    which = "inter"
                elif _calls_in(w, lambda n: n.endswith("::difference")):
                    which = "diff"
                zero = (o[1] == "Eq")
        elif o[0] == "call" and o[1].endswith("::is_empty") and o[2]:
            w = through_helper(local.peel(o[2][0]))
            if _calls_in(w, lambda n: n.endswith("::intersection")):
                which = "inter"
            elif _calls_in(w, lambda n: n.endswith("::difference")):
                which = "diff"
            zero = True
        elif o[0] == "call" and o[1].endswith("::is_disjoint"):
            which, zero = "inter", True
        if which is None:
            return None
        empty = (zero == tv) != neg
        return which, "empty" if empty else "nonempty"

    def helper_facts(g):
        """facts a guard edge on a crate predicate (block, parents) -> bool establishes: the facts common to all of the helper's paths that return the edge's truth value"""
        o = local.peel(g["origin"])
        neg = False
        while o[0] == "unop" and o[1] == "Not":
            neg, o = not neg, local.peel(o[2])
        tv = guards.edge_truth(g)
        hb = lib.body(o[1]) if o[0] == "call" else None
        if tv is None or hb is None or hb.sig_output != "bool" or hb.derived:
            return {}
        want = (tv != neg)
        try:
            from sa import ccp
            leaves = ccp.Machine([lib]).run(hb, [ccp.Sym("p%d" % i) for i in range(1, hb.arg_count + 1)])
        except Exception:
            return {}
        common = None
        for l in leaves:
            if l.kind != "return":
                return {}
            atoms = list(l.label)
            v = l.value
            if isinstance(v, ccp.Const) and isinstance(v.v, bool):
                if v.v != want:
                    continue
            else:
                atoms.append((ccp.show(v), "True" if want else "False"))
            fs = set()
            for a, val in atoms:
                if val not in ("True", "False"):
                    continue
                m_ = re.match(r"^(Eq|Ne)\((.*), 0\)$", a)
                if m_:
                    body_, zero_ = m_.group(2), m_.group(1) == "Eq"
                elif re.match(r"^[\w:<>, ]*::(?:is_none|is_empty)\(", a):
                    body_, zero_ = a, True
                elif re.match(r"^[\w:<>, ]*::is_some\(", a):
                    body_, zero_ = a, False
                else:
                    continue
                which = "inter" if "::intersection(" in body_ else ("diff" if "::difference(" in body_ else None)
                if which is None or ("::intersection(" in body_ and "::difference(" in body_):
                    continue
                empty = (zero_ == (val == "True"))
                fs.add((which, "empty" if empty else "nonempty"))
            common = fs if common is None else (common & fs)
        return {w: {st} for w, st in (common or set())}

    for bi, t, v, rvec in recs:
        facts = {}
        for g in guards.guards(M, bi):
            if g["loop"] or not fi.cfg.edge_dominates(g["block"], g["succ"], bi):
                continue
            ht = half_test(g)
            if ht:
                facts.setdefault(ht[0], set()).add(ht[1])
            else:
                for w_, st_ in helper_facts(g).items():
                    facts.setdefault(w_, set()).update(st_)
        wrong = [h for h, st in facts.items() if "empty" in st]
        if wrong:
            ctx.violation("MIN-7", (M.path, "split condition"), "a block is recorded for splitting on a path where its %s is known to be *empty* (the skip test is inverted): blocks that need "
                          "no split are replaced by an empty and a full half, and blocks that need one are skipped, so distinguishable states stay merged"
                          % " and its ".join("intersection with the parent set" if h == "inter" else "difference from the parent set" for h in wrong), M.loc(t.get("line")))
        elif facts.get("inter") == {"nonempty"} and facts.get("diff") == {"nonempty"}:
            ctx.ok("MIN-7", M.path + ":split only when X∩Y and Y\\X are both non-empty", None, M.loc(t.get("line")))
        else:
            ctx.undecided("MIN-7", M.path, "cannot see that both halves are known to be non-empty where the split is recorded (recognised facts: %s)" % {k: sorted(v_) for k, v_ in facts.items()}, M.loc(t.get("line")))

    for bi, t, v, rvec in recs:
        f1, f2 = through_helper(v[3][1]), through_helper(v[3][2])
        inter = _calls_in(f1, lambda n: n.endswith("::intersection"))
        diff = _calls_in(f2, lambda n: n.endswith("::difference"))
        if not inter or not diff:
            ctx.violation("MIN-2", (M.path, "halves of a split"), "a split block is not replaced by (intersection with the parent set, difference from it): got (%s, %s)"
                          % (local.show(f1)[:60], local.show(f2)[:60]), M.loc(t.get("line")))
            continue
        i_ok = {from_partition(a) for a in inter[0][2]} == {True, False} or (any(from_partition(a) and not from_parents(a) for a in inter[0][2]) and any(from_parents(a) for a in inter[0][2]))
        a0, a1 = diff[0][2][0], diff[0][2][1]
        if not i_ok:
            ctx.violation("MIN-2", (M.path, "intersection operands"), "the intersection half is not taken between the parent set and the block", M.loc(t.get("line")))
        else:
            ctx.ok("MIN-2", M.path + ":split = (X∩Y, Y\\X)", None, M.loc(t.get("line")))
        if from_partition(a0) and not from_parents(a0) and from_parents(a1):
            ctx.ok("MIN-3", M.path + ":difference(block, parents)", None, M.loc(t.get("line")))
        else:
            ctx.violation("MIN-3", (M.path, "difference operands"), "the second half is computed as difference(%s, %s): it must be the block minus the parent set; the reverse yields "
                          "states that are not in the block at all" % (local.show(a0)[:50], local.show(a1)[:50]), M.loc(t.get("line")))
        # re-insertion into the partition: remove + insert(.1) + insert(.2) on the partition vector, values from this replacement vector
        ins = []
        rem = []
        for bj, t2 in M.calls():
            n2 = callee_name(t2) or ""
            if not t2["args"]:
                continue
            tgt = local.peel(dm.operand(t2["args"][0]))
            while tgt[0] in ("ref", "deref"):
                tgt = local.peel(tgt[1])
            if not (tgt[0] == "call" and tgt[1] == G.path):
                continue
            if n2.endswith("Vec::<T, A>::insert") and len(t2["args"]) == 3:
                val = dm.operand(t2["args"][2])
                flds = [x[1] for x in local.walk(val) if x[0] == "field" and x[1] in (1, 2) and _calls_in(x, lambda n: n.endswith("::last") or n.endswith("::pop") or n.endswith("Iterator>::next"))]
                ins.append((bj, flds[:1]))
            if n2.endswith("Vec::<T, A>::remove") or n2.endswith("swap_remove"):
                rem.append(bj)
        got = sorted(f for _, fl in ins for f in fl)
        if rem and got == [1, 2]:
            ctx.ok("MIN-2", M.path + ":block removed, both halves inserted", {"inserts": len(ins)}, M.loc())
        else:
            ctx.violation("MIN-2", (M.path, "re-insertion"), "after removing the split block the partition receives halves %s of the replacement (expected the intersection and the "
                          "difference): states of a missing half drop out of the partition" % got, M.loc())
    # ---- MIN-4 work list
    work_vecs = set()
    pushes = []
    for bi, t in M.calls():
        if (callee_name(t) or "").endswith("Vec::<T, A>::push") and len(t["args"]) == 2:
            v = local.peel(dm.operand(t["args"][1]))
            tgt = local.peel(dm.operand(t["args"][0]))
            while tgt[0] in ("ref", "deref"):
                tgt = local.peel(tgt[1])
            if v[0] == "field" and v[1] in (1, 2) and _calls_in(v, lambda n: n.endswith("IntoIter<T, A> as std::iter::Iterator>::next")) and tgt[0] == "call" and from_partition(tgt):
                pushes.append((bi, v[1], [x for x in _calls_in(v, lambda n: n.endswith("IntoIter<T, A> as std::iter::Iterator>::next"))][0][3]))
    if not ctx.floor("MIN-4", "work-list pushes of replacement halves", len(pushes), 3):
        return
    hdr = pushes[0][2]
    loops = fi.cfg.natural_loops()
    body = loops.get(hdr)
    if body is None:
        ctx.undecided("MIN-4", M.path, "the replacement items are not consumed by a loop", M.loc())
        return
    conts = [(bi, t) for bi, t in M.calls() if bi in body and re.search(r"::contains$|Iterator>?::(?:position|any|find)$", callee_name(t) or "")
             and any(from_partition(dm.operand(a)) for a in t["args"][:1])
             and (any(x[0] == "field" and x[1] in (0, "0") for a in t["args"][1:] for x in local.walk(dm.operand(a)))
                  or any(x[0] == "agg" and x[1] == "closure" for a in t["args"][1:] for x in local.walk(dm.operand(a))))]
    decided = []
    for cb_, ct_ in conts:
        for bi, blk in M.iter_blocks():
            t = blk.get("term")
            if t and t["k"] == "switch" and bi in body:
                o = local.peel(dm.operand(t["discr"]))
                if o[0] == "discr":
                    o = local.peel(o[1])
                if o[0] == "call" and len(o) > 3 and o[3] == cb_:
                    decided.append((cb_, ct_, bi, t))
                    break
    if len(decided) != 1:
        ctx.undecided("MIN-4", M.path, "cannot find the one test whether the split block is pending in the work list (candidates: %d)" % len(decided), M.loc())
        return
    cb, ct, sb_, st_ = decided[0]
    swb = (sb_, st_)
    bi, t = swb
    from sa.cfgkit import switch_edge_value
    p1 = {b_ for b_, f, _ in pushes if f == 1}
    p2 = {b_ for b_, f, _ in pushes if f == 2}
    okw = True
    for tgt in set(fi.cfg.succ[bi]):
        vals = switch_edge_value(t, tgt)
        if vals == [0]:
            pending = False
        elif vals == [1] or (vals == ["otherwise"] and [v_ for v_, _ in t["arms"]] == [0]):
            pending = True
        elif vals == ["otherwise"] and [v_ for v_, _ in t["arms"]] == [1]:
            pending = False
        else:
            ctx.undecided("MIN-4", M.path, "cannot read the branch on the pending test", M.loc(ct.get("line")))
            return
        if pending:
            miss1 = _avoiding_path(fi.cfg, tgt, hdr, p1)
            miss2 = _avoiding_path(fi.cfg, tgt, hdr, p2)
            if miss1 or miss2:
                okw = False
                ctx.violation("MIN-4", (M.path, "pending block"), "when the split block is pending in the work list a path to the next replacement pushes %s: the other half is "
                              "never used as a splitter" % ("neither half" if miss1 and miss2 else ("only the difference" if miss1 else "only the intersection")), M.loc(ct.get("line")))
        else:
            if _avoiding_path(fi.cfg, tgt, hdr, p1 | p2):
                okw = False
                ctx.violation("MIN-4", (M.path, "new splitter"), "when the split block was not pending a path to the next replacement pushes neither half: the refinement can stop "
                              "before the partition is stable", M.loc(ct.get("line")))
    if okw:
        ctx.ok("MIN-4", M.path + ":work list", {"pushes": len(pushes)}, M.loc(ct.get("line")))
    # ---- MIN-6: the refinement runs to the fixpoint: the outer loop is left only when the work list is empty
    parent_calls = [bi for bi, t in M.calls() if lib.body(callee_name(t) or "") is not None and _is_state_set(lib.body(callee_name(t)).sig_output)]
    outer = None
    for h, body_ in loops.items():
        if parent_calls and all(pc in body_ for pc in parent_calls) and (outer is None or len(body_) > len(outer[1])):
            outer = (h, body_)
    if outer is None:
        ctx.undecided("MIN-6", M.path, "cannot find the loop that takes splitters from the work list", M.loc())
    else:
        h, body_ = outer
        bad6 = None
        nexit = 0
        for b_ in sorted(body_):
            blk = M.blocks[b_]
            t = blk.get("term")
            if not t or blk.get("cleanup"):
                continue
            outs = [x for x in fi.cfg.succ.get(b_, []) if x not in body_ and M.blocks[x].get("term", {}).get("k") != "unreachable"]
            if not outs:
                continue
            if t["k"] != "switch":
                continue
            nexit += 1
            o = local.peel(dm.operand(t["discr"]))
            neg = 0
            while o[0] == "unop" and len(o) > 2:
                o = local.peel(o[2])
                neg += 1
            if o[0] == "discr":
                o = local.peel(o[1])
            empt = [x for x in local.walk(o) if x[0] == "call" and re.search(r"::is_empty$|Vec::<T, A>::pop$|::pop_front$|::pop_back$|Iterator>::next$|::first$|::last$", x[1]) and from_partition(x)]
            other = [x for x in local.walk(o) if x[0] == "binop" or (x[0] == "call" and lib.body(x[1]) is not None and x[1] != G.path)]
            okc = bool(empt) and not other
            if not okc:
                bad6 = (t, local.show(o)[:80])
        if bad6:
            ctx.violation("MIN-6", (M.path, "early exit from the refinement"), "the refinement loop can also be left when %s: the partition is then not stable, blocks still contain "
                          "inequivalent states, and the rebuild merges them (test cases lost, other strings accepted)" % bad6[1], M.loc(bad6[0].get("line")))
        elif nexit:
            ctx.ok("MIN-6", M.path + ":loop ends only when the work list is empty", {"exit_tests": nexit}, M.loc())
        else:
            ctx.undecided("MIN-6", M.path, "the refinement loop has no recognisable exit test", M.loc())
    # ---- MIN-5
    reb = [(bi, t) for bi, t in M.calls() if lib.body(callee_name(t) or "") is not None and callee_name(t) != G.path
           and any(from_partition(dm.operand(a)) for a in t["args"][1:]) and (lib.body(callee_name(t)).sig_inputs or [""])[0].startswith("&mut dfa::Dfa")]
    if not reb:
        ctx.undecided("MIN-5", M.path, "cannot find the rebuild call receiving the partition", M.loc())
        return
    for bi, t in reb:
        o = dm.operand(t["args"][1])
        fil = _calls_in(o, lambda n: re.search(r"Iterator::(?:filter|filter_map|take|skip|take_while|skip_while|step_by)$", n) is not None)
        bad = None
        for f in fil:
            if not f[1].endswith("Iterator::filter"):
                bad = "the partition is cut by %s before the rebuild" % f[1]
                break
            c = local.peel(f[2][1])
            r = local.Defs(lib.body(c[2])).local(0) if c[0] == "agg" and lib.body(c[2]) is not None else None
            if not (r is not None and r[0] == "unop" and "Not" in str(r[1]) and _calls_in(r, lambda n: n.endswith("::is_empty"))) \
                    and not (r is not None and local.show(r).startswith("Not(") and "is_empty(" in local.show(r)):
                bad = "classes are filtered by %s before the rebuild; only empty classes may be dropped" % (local.show(r) if r is not None else "?")
        if bad:
            ctx.violation("MIN-5", (M.path, "classes handed to the rebuild"), bad, M.loc(t.get("line")))
        else:
            ctx.ok("MIN-5", M.path + "->" + callee_name(t), {"filters": len(fil)}, M.loc(t.get("line")))
