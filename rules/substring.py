"""SUB-1 — sibling agreement of the two helpers behind common prefix/suffix factoring (shared by C01, C02).

`union()` asks one function for the leading/trailing literal of an operand (reader) and another to cut it off (remover).
They must agree on *where* that literal sits: if the reader reports a literal at a position the remover does not touch,
`union()` prepends the common prefix to an operand that still contains it (p·(p·X|rest)); in the opposite case it cuts text
nobody reported.  Both functions are summarised by path-splitting constant propagation (one rule per abstract path:
conditions on the variant of the node and of its children, the requested side, and the action: use the literal of a node /
recurse into a child with a side); the summaries are then evaluated on every expression shape up to depth 3 over
{Literal, Concatenation, other} for both sides, and the positions must coincide.  Decided: positional agreement on those
shapes.  Not decided: what find_common_substring computes from the two readings."""
import itertools
import re

from sa import ccp

EXPR = "expression::Expression"


def rules(ctx):
    ctx.rule("SUB-1", "the function reading the leading/trailing literal of an operand and the function removing it act on the same positions, on every expression "
                      "shape up to depth 3 and for both sides (summaries by constant propagation, evaluated exhaustively on the finite shape domain)")


def _path(text):
    """child indices along `self.Concatenation.i...`; returns (tuple, rest-tokens) or None"""
    if not text.startswith("self"):
        return None
    toks = text[4:].split(".")
    out = []
    i = 0
    while i < len(toks):
        if toks[i] == "Concatenation" and i + 1 < len(toks) and toks[i + 1].isdigit():
            out.append(int(toks[i + 1]))
            i += 2
            continue
        if toks[i] == "Literal":
            return tuple(out), "Literal"
        i += 1
    return tuple(out), None


class Summary:
    def __init__(self, body, leaves, variants, sub_is_option):
        self.body = body
        self.rules = []
        self.problems = []
        self.sub_is_option = sub_is_option
        names = body.locals
        self.self_name = names[1].get("name") or "self"
        self.sub_name = names[2].get("name") or "arg2"
        for l in leaves:
            if l.kind not in ("return",):
                if l.kind == "panic":
                    continue
                self.problems.append("non-returning path (%s)" % l.kind)
                continue
            cond = {"node": {}, "sub_opt": None, "sub": None}
            ok = True
            for atom, val in l.label:
                m = re.match(r"^discr\((.*)\)$", atom)
                if not m:
                    ok = False
                    self.problems.append("condition %s" % atom[:80])
                    break
                inner = m.group(1).replace(self.self_name, "self", 1) if m.group(1).startswith(self.self_name) else m.group(1)
                if inner.startswith("self"):
                    p = _path(inner)
                    cond["node"][p[0]] = self._valset(val, len(variants))
                elif inner == self.sub_name:
                    if sub_is_option:
                        cond["sub_opt"] = self._valset(val, 2)
                    else:
                        cond["sub"] = self._valset(val, 2)
                elif inner == self.sub_name + ".Some.0":
                    cond["sub"] = self._valset(val, 2)
                else:
                    ok = False
                    self.problems.append("condition on %s" % inner[:80])
                    break
            if not ok:
                continue
            acts = []
            texts = [ccp.show(l.value)] if l.value is not None else []
            for e in l.events:
                if e["k"] == "call":
                    if e["callee"] == body.path:
                        a0 = ccp.show(e["args"][0]).replace(self.self_name, "self", 1)
                        p = _path(a0)
                        a1 = ccp.show(e["args"][1])
                        if a1 == self.sub_name:
                            sub = "same"
                        elif a1.endswith("Option::None()"):
                            sub = None
                        else:
                            sub = "?"
                            self.problems.append("recursive call passes %s as the side" % a1[:60])
                        if p is None:
                            self.problems.append("recursive call on %s" % a0[:60])
                        else:
                            acts.append(("rec", p[0], sub))
                    elif re.search(r"Vec::<T, A>::(?:drain|truncate|remove|split_off|clear|retain)$", e["callee"]) or e["callee"].endswith("Clone>::clone"):
                        texts.append(" ".join(ccp.show(a) for a in e["args"]))
            for t in texts:
                for mm in re.finditer(re.escape(self.self_name) + r"((?:\.\w+)*?)\.Literal\.0", t):
                    p = _path("self" + mm.group(1) + ".Literal.0")
                    if p is not None:
                        acts.append(("lit", p[0]))
            self.rules.append((cond, sorted(set(acts), key=str)))

    @staticmethod
    def _valset(val, n):
        val = val.strip()
        if val.startswith("not in"):
            ex = {int(x) for x in re.findall(r"\d+", val)}
            return set(range(n)) - ex
        if val.startswith("in "):
            return {int(x) for x in re.findall(r"\d+", val)}
        return {int(val)}

    def evaluate(self, shape, side, variants, depth=0):
        """positions (paths) whose literal is used, for `shape` and side in {0: Prefix, 1: Suffix, None}"""
        if depth > 8:
            return {("too deep",)}

        def variant_at(p):
            s = shape
            for i in p:
                if s[0] != "C":
                    return None
                s = s[1 + i]
            return {"L": variants["Literal"], "C": variants["Concatenation"], "O": variants["_other"]}[s[0]]

        def sub_at(p):
            s = shape
            for i in p:
                s = s[1 + i]
            return s
        hits = []
        for cond, acts in self.rules:
            good = True
            for p, vs in cond["node"].items():
                v = variant_at(p)
                if v is None or v not in vs:
                    good = False
                    break
            if not good:
                continue
            if self.sub_is_option:
                if cond["sub_opt"] is not None and (1 if side is not None else 0) not in cond["sub_opt"]:
                    continue
                if cond["sub"] is not None and (side is None or side not in cond["sub"]):
                    continue
            else:
                if cond["sub"] is not None and side not in cond["sub"]:
                    continue
            hits.append(acts)
        if len(hits) != 1:
            return {("ambiguous", len(hits))}
        out = set()
        for a in hits[0]:
            if a[0] == "lit":
                out.add(a[1])
            else:
                _, p, sub = a
                s2 = side if sub == "same" else None
                if not self.sub_is_option and sub is None:
                    s2 = side
                for q in self.evaluate(sub_at(p), s2, variants, depth + 1):
                    out.add(tuple(p) + tuple(q))
        return out


def shapes(depth):
    if depth == 0:
        return [("L",), ("O",)]
    sub = shapes(depth - 1)
    return [("L",), ("O",)] + [("C", a, b) for a in sub for b in sub]


def check(ctx, lib):
    rid = "SUB-1"
    side_ty = "substring::Substring"
    readers = [b for b in lib.bodies if b.kind == "assoc_fn" and b.sig_inputs[:1] == ["&" + EXPR] and len(b.sig_inputs) == 2
               and side_ty in b.sig_inputs[1] and (b.sig_output or "").startswith("std::option::Option<std::vec::Vec<grapheme::Grapheme>")]
    removers = [b for b in lib.bodies if b.kind == "assoc_fn" and b.sig_inputs[:1] == ["&mut " + EXPR] and len(b.sig_inputs) == 3
                and side_ty in b.sig_inputs[1] and b.sig_output == "()"]
    if len(readers) != 1 or len(removers) != 1:
        ctx.anchor_lost(rid, "the pair reader (&Expression, side) -> Option<Vec<Grapheme>> / remover (&mut Expression, side, usize) (found %d / %d)" % (len(readers), len(removers)))
        return
    R, W = readers[0], removers[0]
    adt = lib.adts[EXPR]
    names = [v["name"] for v in adt["variants"]]
    variants = {"Literal": names.index("Literal"), "Concatenation": names.index("Concatenation"),
                "_other": [i for i, n_ in enumerate(names) if n_ not in ("Literal", "Concatenation")][0]}
    sums = {}
    for b in (R, W):
        try:
            leaves = ccp.Machine([lib], max_leaves=4000).run(b, None)
        except Exception as e:
            ctx.undecided(rid, b.path, str(e), b.loc())
            return
        s = Summary(b, leaves, names, sub_is_option=b.sig_inputs[1].startswith("std::option::Option<"))
        if s.problems:
            ctx.undecided(rid, b.path, "cannot summarise: %s" % "; ".join(sorted(set(s.problems))[:3]), b.loc())
            return
        sums[b.path] = s
    n = 0
    bad = None
    for sh in shapes(3):
        for side in (0, 1):
            r = sums[R.path].evaluate(sh, side, variants)
            w = sums[W.path].evaluate(sh, side, variants)
            n += 1
            if any(isinstance(x, tuple) and x and isinstance(x[0], str) for x in r | w):
                ctx.undecided(rid, R.path, "summaries are not deterministic on shape %s" % (sh,), R.loc())
                return
            if r != w and bad is None:
                bad = (sh, side, r, w)
    ctx.extra["sub1_shapes_evaluated"] = n

    def show_shape(s):
        return {"L": "Lit", "O": "x"}.get(s[0]) if s[0] != "C" else "(%s·%s)" % (show_shape(s[1]), show_shape(s[2]))
    if bad:
        sh, side, r, w = bad
        ctx.violation(rid, (R.path + " vs " + W.path, "positions"),
                      "for the %s of an operand of shape %s the reader reports the literal at position(s) %s but the remover cuts at %s: union() would re-attach a common "
                      "%s to an operand that still contains it (or cut text that was never reported)" % (
                          "prefix" if side == 0 else "suffix", show_shape(sh), sorted(r) or "none", sorted(w) or "none", "prefix" if side == 0 else "suffix"), R.loc())
    else:
        ctx.ok(rid, "%s ~ %s" % (R.path, W.path), {"shapes_x_sides": n, "rules": {R.path: len(sums[R.path].rules), W.path: len(sums[W.path].rules)}}, R.loc())
