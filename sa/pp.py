"""Human-readable MIR listing of a fact file (development aid, no rule).
usage: python3 -m sa.pp <facts-dir> <crate-key> <path-substring>"""
import sys
from .facts import Program, norm


def place_s(p):
    s = "_%d" % p["l"]
    for e in p["proj"]:
        k = e["k"]
        if k == "deref":
            s = "(*%s)" % s
        elif k == "field":
            nm = e.get("name") or e.get("upvar") or str(e["i"])
            s = "%s.%s" % (s, nm)
        elif k == "downcast":
            s = "(%s as %s)" % (s, e.get("variant"))
        elif k == "index":
            s = "%s[_%d]" % (s, e["l"])
        else:
            s = "%s.<%s>" % (s, k)
    return s


def const_s(c):
    t = c.get("t")
    if t == "uneval":
        v = ""
        if "value" in c:
            v = "=" + const_s(c["value"])
        if c.get("promoted") is not None:
            return "promoted[%s]%s" % (c["promoted"], v)
        return "CONST %s%s" % (c["path"], v)
    if t in ("bool", "int"):
        return str(c["v"])
    if t == "char":
        return repr(chr(c["v"]))
    if t == "str":
        return repr(c["v"])
    if t == "bytes":
        return "b" + repr(bytes(c["v"]))
    if t == "fn":
        return "fn " + c["path"]
    if t == "zst":
        return "zst<%s>" % c["ty"]
    if t == "seq":
        return "[" + ", ".join(const_s(x) for x in c["v"][:40]) + (", ..." if len(c["v"]) > 40 else "") + "]"
    if t == "tuple":
        return "(" + ", ".join(const_s(x) for x in c["v"]) + ")"
    if t == "static_ref":
        return "&static " + c["path"]
    return "<%s %s>" % (t, c.get("ty", ""))


def op_s(o):
    k = o["k"]
    if k in ("copy", "move"):
        return "%s %s" % (k, place_s(o["place"]))
    if k == "const":
        return const_s(o["c"])
    return "<op?>"


def rv_s(r):
    k = r["k"]
    if k == "use":
        return op_s(r["op"])
    if k == "ref":
        return "&%s%s" % ("mut " if r["mut"] else "", place_s(r["place"]))
    if k == "rawptr":
        return "&raw %s" % place_s(r["place"])
    if k == "binop":
        return "%s(%s, %s)" % (r["op"], op_s(r["a"]), op_s(r["b"]))
    if k == "unop":
        return "%s(%s)" % (r["op"], op_s(r["a"]))
    if k == "cast":
        return "%s as %s [%s]" % (op_s(r["a"]), r["ty"], r["kind"])
    if k == "discr":
        return "discriminant(%s)" % place_s(r["place"])
    if k == "aggregate":
        a = r["agg"]
        ops = ", ".join(op_s(x) for x in r["ops"])
        if a == "adt":
            return "%s::%s { %s }" % (r["adt"], r["variant"], ops)
        if a == "closure":
            return "closure %s [%s]" % (norm(r["closure"]), ops)
        return "%s [%s]" % (a, ops)
    if k == "repeat":
        return "[%s; %s]" % (op_s(r["a"]), r["n"])
    return "<%s %s>" % (k, r.get("dbg", ""))


def term_s(t):
    k = t["k"]
    if k == "goto":
        return "goto bb%d" % t["target"]
    if k == "switch":
        return "switch %s [%s] otherwise bb%d" % (
            op_s(t["discr"]), ", ".join("%d->bb%d" % (v, b) for v, b in t["arms"]), t["otherwise"])
    if k == "call":
        c = t["callee"]
        if "indirect" in c:
            name = "INDIRECT " + op_s(c["indirect"])
        else:
            name = norm(c.get("res") or c["decl"])
            if c.get("res") and norm(c["res"]) != norm(c["decl"]):
                name += " {decl %s}" % norm(c["decl"])
            ra = c.get("res_args") or c.get("args")
            if ra:
                name += "<" + ", ".join(norm(x) for x in ra) + ">"
        tgt = "bb%d" % t["target"] if t["target"] is not None else "!"
        return "%s = %s(%s) -> %s" % (place_s(t["dest"]), name, ", ".join(op_s(a) for a in t["args"]), tgt)
    if k == "assert":
        return "assert(%s == %s) %s -> bb%d" % (op_s(t["cond"]), t["expected"], t["kind"], t["target"])
    if k == "drop":
        return "drop(%s) -> bb%d" % (place_s(t["place"]), t["target"])
    return k + " " + t.get("dbg", "")


def dump_mir(mir, out=sys.stdout, cleanup=False):
    for i, l in enumerate(mir["locals"]):
        nm = l.get("name")
        print("    let _%d: %s%s" % (i, norm(l["ty"]), ("  // " + nm) if nm else ""), file=out)
    for i, b in enumerate(mir["blocks"]):
        if b["cleanup"] and not cleanup:
            continue
        print("  bb%d:" % i, file=out)
        for s in b["stmts"]:
            if s["k"] == "assign":
                print("    %s = %s   @%s%s" % (place_s(s["place"]), rv_s(s["rv"]), s.get("line"),
                                               (" !" + ",".join(s["macros"])) if s.get("macros") else ""), file=out)
            else:
                print("    <%s>" % s["k"], file=out)
        t = b.get("term")
        if t:
            print("    %s   @%s%s" % (term_s(t), t.get("line"),
                                      (" !" + ",".join(t["macros"])) if t.get("macros") else ""), file=out)


def main():
    prog = Program("x", sys.argv[1])
    cr = prog.crate(sys.argv[2])
    sub = sys.argv[3]
    for b in cr.bodies:
        if sub in b.path:
            print("=== %s [%s] %s args=%d" % (b.path, b.kind, b.loc(), b.arg_count))
            if b.captures:
                print("   captures:", [(c["name"], c["by_ref"]) for c in b.captures])
            dump_mir(b.mir)
            for i, p in enumerate(b.promoted):
                print("  -- promoted[%d]" % i)
                dump_mir(p)


if __name__ == "__main__":
    main()
