"""Crate-local call graph over resolved callees (conservative for trait dispatch
through std generics: a call whose generic arguments mention a crate type T gets
edges to every trait-impl method of T defined in the crate)."""
import re

from .facts import callee_name, norm

_IDENT = re.compile(r"[A-Za-z_][A-Za-z0-9_]*(?:::[A-Za-z_][A-Za-z0-9_]*)+")


class CallGraph:
    def __init__(self, crate):
        self.crate = crate
        self.edges = {}
        self.impl_methods = {}   # self type path (no generics) -> [body paths of trait impl methods]
        for b in crate.bodies:
            if b.impl_trait and b.impl_self:
                base = b.impl_self.split("<")[0]
                self.impl_methods.setdefault(base, []).append(b.path)
        adt_names = set(crate.adts)
        for b in crate.bodies:
            out = set()
            for _, t in b.calls(cleanup=True):
                n = callee_name(t)
                if n is None:
                    continue
                if n in crate.by_path:
                    out.add(n)
                    continue
                d = norm(t["callee"].get("decl"))
                if d in crate.by_path:
                    out.add(d)
                # std/dep generic: dispatch into crate impls through type arguments
                c = t["callee"]
                for a in (c.get("res_args") or []) + (c.get("args") or []):
                    for m in _IDENT.findall(norm(a)):
                        if m in adt_names:
                            for p in self.impl_methods.get(m, []):
                                out.add(p)
                # fn items passed as arguments (e.g. Lazy::get(.., __static_ref_initialize))
                for a in t["args"]:
                    cc = a.get("c") if a.get("k") == "const" else None
                    if cc and cc.get("t") == "fn" and norm(cc["path"]) in crate.by_path:
                        out.add(norm(cc["path"]))
            # drop glue of crate types is ignored (no user Drop impls are expected; checked by rules if needed)
            self.edges[b.path] = out
        for b in crate.bodies:
            if b.kind == "closure" and b.direct_parent in self.edges:
                self.edges[b.direct_parent].add(b.path)

    def reachable(self, roots):
        seen = set()
        st = [r for r in roots if r in self.edges]
        while st:
            x = st.pop()
            if x in seen:
                continue
            seen.add(x)
            for y in self.edges.get(x, ()):
                if y not in seen:
                    st.append(y)
        return seen

    def callers(self, path):
        return sorted(k for k, v in self.edges.items() if path in v)
