"""Control-flow toolkit over dumped MIR: successors, dominators, post-dominators,
control dependence, natural loops.  Unwind/cleanup edges are excluded by default
(normal-exit CFG)."""


def successors(term, unwind=False):
    if term is None:
        return []
    k = term["k"]
    out = []
    if k == "goto":
        out = [term["target"]]
    elif k == "switch":
        out = [b for _, b in term["arms"]] + [term["otherwise"]]
    elif k in ("call", "drop", "assert"):
        if term.get("target") is not None:
            out = [term["target"]]
        if unwind and term.get("unwind") is not None:
            out.append(term["unwind"])
    # return / unreachable / resume / terminate / other: none
    seen = []
    for b in out:
        if b not in seen:
            seen.append(b)
    return seen


class CFG:
    def __init__(self, mir, unwind=False):
        self.mir = mir
        self.blocks = mir["blocks"]
        self.n = len(self.blocks)
        self.succ = {}
        self.pred = {i: [] for i in range(self.n)}
        for i, b in enumerate(self.blocks):
            if b["cleanup"] and not unwind:
                self.succ[i] = []
                continue
            self.succ[i] = successors(b.get("term"), unwind)
        for i, ss in self.succ.items():
            for s in ss:
                self.pred[s].append(i)
        self.entry = 0
        self.reach = self._reach(self.entry, self.succ)
        self.exits = [i for i in self.reach if self.blocks[i].get("term", {}).get("k") == "return"]
        self._dom = None
        self._pdom = None

    @staticmethod
    def _reach(start, succ):
        seen = {start}
        st = [start]
        while st:
            x = st.pop()
            for y in succ.get(x, []):
                if y not in seen:
                    seen.add(y)
                    st.append(y)
        return seen

    # ---- dominators (iterative set-based; graphs are tiny)
    @staticmethod
    def _dominators(nodes, entry_set, pred):
        nodes = list(nodes)
        allset = set(nodes)
        dom = {n: set(allset) for n in nodes}
        for e in entry_set:
            dom[e] = {e}
        changed = True
        while changed:
            changed = False
            for n in nodes:
                if n in entry_set:
                    continue
                ps = [p for p in pred.get(n, []) if p in allset]
                if ps:
                    new = set.intersection(*(dom[p] for p in ps)) | {n}
                else:
                    new = {n}
                if new != dom[n]:
                    dom[n] = new
                    changed = True
        return dom

    @property
    def dom(self):
        if self._dom is None:
            self._dom = self._dominators(self.reach, {self.entry}, self.pred)
        return self._dom

    def dominates(self, a, b):
        return b in self.dom and a in self.dom[b]

    def _pdom_for(self, exits):
        VEXIT = -1
        rsucc = {n: list(self.pred[n]) for n in self.reach}
        rsucc[VEXIT] = list(exits)
        rpred = {n: list(self.succ[n]) for n in self.reach}
        for e in exits:
            rpred[e] = rpred.get(e, []) + [VEXIT]
        rpred[VEXIT] = []
        nodes = self._reach(VEXIT, rsucc)
        return self._dominators(nodes, {VEXIT}, rpred)

    @property
    def pdom(self):
        """Post-dominators w.r.t. normal `return` exits only (virtual exit -1).
        Blocks that cannot reach a return (diverging paths) are absent."""
        if self._pdom is None:
            self._pdom = self._pdom_for(self.exits)
        return self._pdom

    @property
    def pdom_all(self):
        """Post-dominators w.r.t. every terminal block (returns and diverging calls)."""
        if getattr(self, "_pdom_all", None) is None:
            term = [i for i in self.reach if not self.succ[i]]
            self._pdom_all = self._pdom_for(term)
        return self._pdom_all

    def postdominates(self, a, b):
        """a post-dominates b (every path from b to a normal return passes a)."""
        return b in self.pdom and a in self.pdom[b]

    # ---- control dependence (Ferrante et al.): b is control dependent on edge (a -> s)
    # iff b post-dominates s and b does not strictly post-dominate a.
    def control_deps(self, b):
        pd = self.pdom_all
        out = []
        for a in self.reach:
            ss = self.succ[a]
            if len(ss) < 2:
                continue
            for s in ss:
                if s in pd and b in pd[s]:
                    if not (a != b and a in pd and b in pd[a]):
                        out.append((a, s))
        return out

    def transitive_control_deps(self, b):
        seen = []
        work = [b]
        done = set()
        while work:
            x = work.pop()
            if x in done:
                continue
            done.add(x)
            for (a, s) in self.control_deps(x):
                if (a, s) not in seen:
                    seen.append((a, s))
                    work.append(a)
        return seen

    # ---- loops
    def back_edges(self):
        return [(a, h) for a in self.reach for h in self.succ[a] if self.dominates(h, a)]

    def natural_loops(self):
        """dict header -> set of blocks"""
        loops = {}
        for (a, h) in self.back_edges():
            body = {h, a}
            st = [a]
            while st:
                x = st.pop()
                if x == h:
                    continue
                for p in self.pred[x]:
                    if p not in body and p in self.reach:
                        body.add(p)
                        st.append(p)
            loops.setdefault(h, set()).update(body)
        return loops

    def loops_containing(self, b):
        return {h: body for h, body in self.natural_loops().items() if b in body}

    def edge_dominates(self, a, s, b):
        """Every path entry->b passes through edge a->s (s has a as only way in on those
        paths): true if s dominates b and a is the only predecessor of s, or computed by
        removing the edge and testing reachability."""
        succ = {k: list(v) for k, v in self.succ.items()}
        succ[a] = [x for x in succ[a] if x != s]
        # careful: switch with duplicate targets collapses; fine
        return b not in self._reach(self.entry, succ)

    def reachable_from(self, a):
        return self._reach(a, self.succ)


def switch_edge_value(term, target):
    """For a switch terminator, the set of discriminant values that lead to `target`
    ('otherwise' marks the default arm)."""
    vals = [v for v, b in term["arms"] if b == target]
    if term["otherwise"] == target:
        vals.append("otherwise")
    return vals
