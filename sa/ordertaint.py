"""Hash-order taint: every value of an unordered-iterator type and every consumer of it.

Sources are recognised by *type*: the MIR type of a call's destination or argument
contains std::collections::hash_{set,map}::{Iter,..,Difference,..}.  Adapter types embed
the source type, so flow through locals, calls and fields needs no extra dataflow.
A consumer is order-insensitive (terminal set below), an order-preserving adapter
(taint continues by type), the driver of a loop whose body is a commutative
accumulation, or an order-sensitive sink (reported)."""
import re

from . import local
from .facts import callee_name, norm
from .guards import FnInfo

HASH_ITER = re.compile(
    r"std::collections::hash_(?:set|map)::(?:Iter|IterMut|IntoIter|Keys|Values|ValuesMut|Drain|Intersection|Difference|"
    r"Union|SymmetricDifference|IntoKeys|IntoValues|ExtractIf)\b")

UNORDERED_COLL = re.compile(r"^(?:&(?:mut )?)?std::collections::(?:HashSet|HashMap|BTreeSet|BTreeMap)<")

# last path segment of the *declared* callee (trait method names)
TERMINAL_OK = {"count", "sum", "min", "max", "all", "any", "size_hint", "len", "is_empty", "contains", "sorted", "sorted_unstable"}
ADAPTER_OK = {"map", "filter", "filter_map", "copied", "cloned", "into_iter", "by_ref", "chain", "flat_map", "flatten",
              "inspect", "iter", "clone", "borrow", "borrow_mut", "deref", "deref_mut", "as_ref", "as_mut", "drop", "from", "into"}
ADAPTER_ORDER_SENSITIVE = {"skip", "take", "step_by", "enumerate", "zip", "rev", "peekable", "skip_while", "take_while",
                           "scan", "map_while", "tuple_windows", "coalesce", "dedup", "chunk_by", "chunks", "windows", "nth"}
TIE_SENSITIVE = {"sorted_by_key", "sorted_by", "sorted_unstable_by_key", "sorted_unstable_by", "max_by_key", "min_by_key",
                 "max_by", "min_by", "sorted_by_cached_key"}
COMMUTATIVE_INSERT = (
    "std::collections::HashSet::<T, S, A>::insert", "std::collections::HashSet::<T, S>::insert",
    "std::collections::BTreeSet::<T, A>::insert", "std::collections::HashMap::<K, V, S, A>::insert",
    "std::collections::HashMap::<K, V, S>::insert", "std::collections::BTreeMap::<K, V, A>::insert",
)


def has_hash_iter(ty):
    return bool(ty) and bool(HASH_ITER.search(ty))


def last_seg(name):
    if name is None:
        return None
    n = name
    # strip trailing generic args
    return n.rsplit("::", 1)[-1]


class Site:
    def __init__(self, body, block, term, role, detail=None):
        self.body = body
        self.block = block
        self.term = term
        self.role = role          # source | adapter | terminal_ok | loop_ok | VIOLATION kinds
        self.detail = detail
        self.callee = callee_name(term)
        self.decl = norm(term["callee"].get("decl")) if "indirect" not in term["callee"] else None
        self.line = term.get("line")

    def key(self):
        return (self.body.path, self.callee)


def arg_types(term):
    out = []
    for a in term["args"]:
        pl = a.get("place")
        out.append(norm(pl["ty"]) if pl is not None else None)
    return out


def derived_from(t, next_block, next_callee):
    for x in local.walk(t):
        if x[0] == "call" and x[3] == next_block and x[1] == next_callee:
            return True
    return False


def check_loop(body, next_block, next_term):
    """Loop driven by the hash iterator whose `next` call is in block `next_block`.
    Returns list of problems (empty = commutative accumulation), or None if the call is not a loop header."""
    fi = FnInfo.of(body)
    loops = fi.cfg.natural_loops()
    if next_block not in loops:
        return None
    L = loops[next_block]
    probs = []
    nxt = callee_name(next_term)
    switch_block = next_term["target"]
    # (1) early exits
    for b in L:
        for s in fi.cfg.succ[b]:
            if body.blocks[s].get("term", {}).get("k") == "unreachable":
                continue
            if s not in L and b not in (next_block, switch_block):
                probs.append(("early-exit", "the loop is left from bb%d (break/return) before the iterator is exhausted: which element "
                              "triggers the exit depends on hash order" % b, body.blocks[b]["term"].get("line")))
    # locals defined inside the loop
    inside_defs = set()
    for b in L:
        for s in body.blocks[b]["stmts"]:
            if s["k"] == "assign" and not s["place"]["proj"]:
                inside_defs.add(s["place"]["l"])
        t = body.blocks[b].get("term")
        if t and t["k"] == "call" and not t["dest"]["proj"]:
            inside_defs.add(t["dest"]["l"])
    outside_defs = set()
    for bi, blk in body.iter_blocks():
        if bi in L:
            continue
        for st in blk["stmts"]:
            if st["k"] == "assign":
                outside_defs.add(st["place"]["l"])
        tt = blk.get("term")
        if tt and tt["k"] == "call":
            outside_defs.add(tt["dest"]["l"])
    # locals used outside the loop
    used_outside = set()

    def note_use(pl):
        used_outside.add(pl["l"])
        for e in pl["proj"]:
            if e["k"] == "index":
                used_outside.add(e["l"])

    def ops_of_rv(rv):
        k = rv["k"]
        if k == "use":
            return [rv["op"]]
        if k in ("ref", "rawptr", "discr"):
            return [{"k": "copy", "place": rv["place"]}]
        if k == "binop":
            return [rv["a"], rv["b"]]
        if k in ("unop", "cast", "repeat"):
            return [rv["a"]]
        if k == "aggregate":
            return rv["ops"]
        return []

    for bi, blk in body.iter_blocks():
        if bi in L:
            continue
        for s in blk["stmts"]:
            if s["k"] == "assign":
                for o in ops_of_rv(s["rv"]):
                    if "place" in o:
                        note_use(o["place"])
                if s["place"]["proj"]:
                    note_use(s["place"])
        t = blk.get("term")
        if t:
            if t["k"] == "call":
                for a in t["args"]:
                    if "place" in a:
                        note_use(a["place"])
            elif t["k"] == "switch" and "place" in t["discr"]:
                note_use(t["discr"]["place"])
            elif t["k"] == "drop":
                pass
            elif t["k"] == "return":
                used_outside.add(0)
    # (2) calls with &mut on outer state, (3) assignments to outer locals derived from the item
    for b in sorted(L):
        blk = body.blocks[b]
        t = blk.get("term")
        if t and t["k"] == "call" and b != next_block:
            cn = callee_name(t)
            tys = arg_types(t)
            for i, ty in enumerate(tys):
                if ty and ty.startswith("&mut"):
                    o = fi.defs.operand(t["args"][i])
                    base = local.peel(o)
                    root = base
                    while root[0] in ("field", "index", "downcast", "deref", "ref"):
                        root = root[2] if root[0] in ("field", "downcast") else root[1]
                    # the mutable target is created within this iteration? (fresh local assigned inside the loop)
                    fresh = False
                    pl = t["args"][i].get("place")
                    if pl is not None:
                        # follow `&mut _x` definitions syntactically
                        tgt = _mut_target_local(body, pl["l"])
                        if tgt is not None and tgt in inside_defs and tgt not in used_outside:
                            fresh = True
                    if fresh:
                        continue
                    if cn in COMMUTATIVE_INSERT:
                        if "Map" in cn:
                            keyo = fi.defs.operand(t["args"][1])
                            if not derived_from(keyo, next_block, nxt):
                                probs.append(("map-insert-key", "map insert inside the hash-ordered loop whose key is not the loop element: "
                                              "the last writer wins", t.get("line")))
                        continue
                    probs.append(("outer-mutation", "%s mutates state that outlives the iteration inside a hash-ordered loop" % cn, t.get("line")))
        for s in blk["stmts"]:
            if s["k"] != "assign":
                continue
            pl = s["place"]
            tl = pl["l"]
            through_ref = any(e["k"] == "deref" for e in pl["proj"])
            outer = tl == 0 or tl in used_outside or tl in outside_defs or through_ref
            if not outer:
                continue
            o = fi.defs.rvalue(s["rv"])
            if derived_from(o, next_block, nxt):
                probs.append(("item-escapes", "a value derived from the current element is assigned to state that outlives the "
                              "iteration (last element wins)", s.get("line")))
    return probs


def _mut_target_local(body, l, depth=0):
    """For a temp holding `&mut X` return local X (following reborrows)."""
    if depth > 6:
        return None
    for _, blk in body.iter_blocks():
        for s in blk["stmts"]:
            if s["k"] == "assign" and s["place"]["l"] == l and not s["place"]["proj"]:
                rv = s["rv"]
                if rv["k"] == "ref":
                    p = rv["place"]
                    if not p["proj"]:
                        return p["l"]
                    if p["proj"][0]["k"] == "deref":
                        return _mut_target_local(body, p["l"], depth + 1)
                    return p["l"]
                if rv["k"] == "use" and "place" in rv["op"] and not rv["op"]["place"]["proj"]:
                    return _mut_target_local(body, rv["op"]["place"]["l"], depth + 1)
    return None


def collect_target(term):
    """For Iterator::collect / FromIterator::from_iter / Extend::extend the collection type receiving the items."""
    c = term["callee"]
    dest = norm(term["dest"]["ty"])
    name = norm(c.get("decl") or "")
    seg = last_seg(name)
    if seg in ("collect", "from_iter", "collect_vec", "to_vec", "to_owned"):
        return dest
    if seg == "extend" and term["args"]:
        pl = term["args"][0].get("place")
        return norm(pl["ty"]) if pl else None
    return None


def _places(j):
    """all place dicts ({"l":..,"proj":[..]}) inside a statement / terminator"""
    if isinstance(j, dict):
        if "l" in j and "proj" in j:
            yield j
        for v in j.values():
            yield from _places(v)
    elif isinstance(j, list):
        for v in j:
            yield from _places(v)


def only_emptiness_test(body, l, depth=0):
    """True if the Option held in local `l` is only asked whether it is Some/None (is_some / is_none / discriminant), never opened: the answer
    ("is the iterator empty?") does not depend on the iteration order."""
    if depth > 4:
        return False
    used = False
    for bi, blk in body.iter_blocks(cleanup=True):
        for st in blk["stmts"]:
            if st["k"] != "assign":
                if any(p["l"] == l for p in _places(st)) and st["k"] not in ("storage_live", "storage_dead", "nop"):
                    return False
                continue
            rv = st["rv"]
            hits = [p for p in _places(rv) if p["l"] == l]
            if not hits:
                continue
            used = True
            if any(p["proj"] for p in hits):
                return False
            if rv["k"] == "discr":
                continue
            if rv["k"] in ("ref", "use") and not st["place"]["proj"]:
                if not only_emptiness_test(body, st["place"]["l"], depth + 1):
                    return False
                continue
            return False
        t = blk.get("term")
        if not t:
            continue
        if t["k"] == "call":
            hits = [p for a in t["args"] for p in _places(a) if p["l"] == l]
            if hits:
                used = True
                if last_seg(norm(t["callee"].get("decl") or "")) not in ("is_some", "is_none"):
                    return False
            if t["dest"]["l"] == l and t["dest"]["proj"]:
                return False
        elif t["k"] == "drop":
            continue
        elif any(p["l"] == l for p in _places({k: v for k, v in t.items() if k not in ("targets",)})):
            return False
    return used


def scan(body):
    """Classify every call of `body` that touches a hash-iterator typed value."""
    sites = []
    for bi, t in body.calls():
        tys = arg_types(t)
        dest = norm(t["dest"]["ty"])
        a_h = [i for i, ty in enumerate(tys) if has_hash_iter(ty)]
        d_h = has_hash_iter(dest)
        if not a_h and not d_h:
            continue
        decl = norm(t["callee"].get("decl") or "")
        seg = last_seg(decl)
        if not a_h:
            sites.append(Site(body, bi, t, "source", dest))
            continue
        if seg in ADAPTER_ORDER_SENSITIVE:
            sites.append(Site(body, bi, t, "order-sensitive-adapter", seg))
            continue
        if seg in TIE_SENSITIVE:
            sites.append(Site(body, bi, t, "tie-sensitive", seg))
            continue
        if d_h:
            if seg in ADAPTER_OK:
                sites.append(Site(body, bi, t, "adapter", seg))
            else:
                sites.append(Site(body, bi, t, "unknown-adapter", seg))
            continue
        if seg in ("next", "next_back"):
            probs = check_loop(body, bi, t)
            if probs is None and not t["dest"]["proj"] and only_emptiness_test(body, t["dest"]["l"]):
                sites.append(Site(body, bi, t, "terminal_ok", "next() used only as an emptiness test"))
            elif probs is None:
                sites.append(Site(body, bi, t, "next-outside-loop", "the first element of a hash-ordered iterator is taken"))
            elif probs:
                sites.append(Site(body, bi, t, "loop-order-sensitive", probs))
            else:
                sites.append(Site(body, bi, t, "loop_ok", None))
            continue
        ct = collect_target(t)
        if ct is not None:
            if UNORDERED_COLL.search(ct):
                sites.append(Site(body, bi, t, "terminal_ok", "collect into " + ct.split("<")[0]))
            else:
                sites.append(Site(body, bi, t, "ordered-collect", ct))
            continue
        if seg in TERMINAL_OK:
            sites.append(Site(body, bi, t, "terminal_ok", seg))
            continue
        if seg in ADAPTER_OK:
            # e.g. drop/clone of the iterator itself
            sites.append(Site(body, bi, t, "adapter", seg))
            continue
        sites.append(Site(body, bi, t, "order-sensitive-sink", seg))
    return sites
