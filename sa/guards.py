"""Guard conditions of a program point: the switch edges a block is (transitively)
control dependent on, with the origin tree of each switch discriminant."""
from . import cfgkit, local


class FnInfo:
    """CFG + Defs of one body, cached."""
    _cache = {}

    def __init__(self, body):
        self.body = body
        self.cfg = cfgkit.CFG(body.mir)
        self.defs = local.Defs(body)

    @classmethod
    def of(cls, body):
        k = id(body)
        if k not in cls._cache:
            cls._cache[k] = cls(body)
        return cls._cache[k]


def is_loop_guard(origin):
    """discriminant of the Option returned by an Iterator::next call (for-loop desugaring / while let)."""
    o = origin
    if o[0] == "discr":
        o = local.peel(o[1])
    if o[0] == "multi":
        return all(is_loop_guard(x) for x in o[1])
    return o[0] == "call" and (o[1].endswith("::next") or o[1].endswith("::next_back"))


def guards(body, block, transitive=True):
    fi = FnInfo.of(body)
    deps = fi.cfg.transitive_control_deps(block) if transitive else fi.cfg.control_deps(block)
    out = []
    for (a, s) in deps:
        term = body.blocks[a]["term"]
        if term["k"] != "switch":
            continue
        origin = fi.defs.operand(term["discr"])
        out.append({
            "block": a,
            "succ": s,
            "values": cfgkit.switch_edge_value(term, s),
            "discr_ty": term.get("discr_ty"),
            "origin": origin,
            "loop": is_loop_guard(origin),
            "line": term.get("line"),
        })
    return out


def edge_truth(g):
    """For a bool switch: True/False for the edge's truth value, None if not a bool guard."""
    if g["discr_ty"] != "bool":
        return None
    vals = g["values"]
    if vals == [0]:
        return False
    if vals == ["otherwise"] or vals == [1]:
        return True
    return None


def call_sites(crate, callee_path, resolved=True):
    """[(body, block index, term)] of all calls to callee_path in the crate (normal-path blocks)."""
    from .facts import callee_name
    out = []
    for b in crate.bodies:
        for i, t in b.calls():
            if callee_name(t, resolved) == callee_path:
                out.append((b, i, t))
    return out
