"""Findings, known-findings filter, evidence writer."""
import hashlib
import json
import os
import time

VERIF = os.path.dirname(os.path.dirname(os.path.abspath(__file__)))
KNOWN = os.path.join(VERIF, "known_findings.json")


class Undecided(Exception):
    """A rule met a construct it cannot decide: fail closed."""


class Ctx:
    def __init__(self, prop, tier, seed):
        self.prop = prop
        self.tier = tier
        self.seed = seed
        self.t0 = time.time()
        self.violations = []      # dicts: rule,key,msg,loc,detail
        self.instances = []       # dicts: rule,site,verdict,facts
        self.rules = {}           # rule id -> text
        self.notes = []
        self.views = []
        self.assumptions = []
        self.extra = {}
        self.noverdict = []
        self._ord = {}

    # ---- declaring what is checked
    def rule(self, rid, text):
        self.rules[rid] = text

    def assume(self, text):
        if text not in self.assumptions:
            self.assumptions.append(text)

    def note(self, text):
        self.notes.append(text)

    # ---- recording instances
    def ok(self, rid, site, facts=None, loc=None):
        self.instances.append({"rule": rid, "site": site, "verdict": "holds", "loc": loc, "facts": facts})

    def violation(self, rid, key_parts, msg, loc=None, facts=None):
        """key_parts: tuple (function def-path, construct). The ordinal among identical
        keys is appended automatically so that a second identical construct in the same
        function is a different finding."""
        base = ":".join([rid] + [str(k) for k in key_parts])
        n = self._ord.get(base, 0)
        self._ord[base] = n + 1
        key = base if n == 0 else "%s:%d" % (base, n)
        self.violations.append({"rule": rid, "key": key, "msg": msg, "loc": loc, "facts": facts})
        self.instances.append({"rule": rid, "site": ":".join(str(k) for k in key_parts),
                               "verdict": "VIOLATED", "loc": loc, "facts": facts, "msg": msg})

    # ---- no verdict: the rule cannot analyse this tree.  This is neither "holds" nor a violation: reporting it as a
    # violation would raise an alarm on behaviour-preserving rewrites the analysis does not understand.
    def no_verdict(self, rid, kind, where, msg, loc=None):
        k = (rid, kind, where)
        if any((x["rule"], x["kind"], x["where"]) == k for x in self.noverdict):
            return
        self.noverdict.append({"rule": rid, "kind": kind, "where": where, "msg": msg, "loc": loc})

    def anchor_lost(self, rid, what, loc=None):
        self.no_verdict(rid, "ANCHOR-LOST", what, "cannot locate the construct this rule analyses (%s)" % what, loc)

    def undecided(self, rid, where, why, loc=None):
        self.no_verdict(rid, "UNDECIDED", where, "cannot decide: %s" % why, loc)

    def floor(self, rid, what, n, minimum):
        if n < minimum:
            self.no_verdict(rid, "ANCHOR-LOST", what,
                            "found %d instance(s) of %s, expected at least %d (confirmed by hand on the pinned tree); "
                            "a rule that matches nothing would pass vacuously" % (n, what, minimum))
            return False
        return True

    def missing(self, rid, key_parts, msg, loc=None):
        """A mechanism the property depends on is absent: that *is* a violation."""
        self.violation(rid, key_parts, msg, loc)


def load_known():
    if not os.path.exists(KNOWN):
        return {"open": [], "fixed": []}
    with open(KNOWN) as f:
        return json.load(f)


def finish(ctx, level="other"):
    """Filter known findings, print verdict lines, write evidence. Returns exit code."""
    known = load_known()
    open_keys = {(k["property"], k["key"]): k for k in known.get("open", [])}
    evdir = os.environ.get("GREX_EVIDENCE_DIR") or os.path.join(VERIF, "evidence")
    viol_dir = os.path.join(evdir, "violations")
    os.makedirs(viol_dir, exist_ok=True)
    unlisted = []
    listed = []
    for v in ctx.violations:
        k = open_keys.get((ctx.prop, v["key"]))
        if k is not None:
            listed.append((v, k))
        else:
            unlisted.append(v)
    for v, k in listed:
        print("KNOWN-FINDING: property=%s %s [%s] %s" % (ctx.prop, k.get("what", v["msg"]), v["key"], v.get("loc") or ""))
    for v in unlisted:
        h = hashlib.sha1(v["key"].encode()).hexdigest()[:10]
        path = os.path.join(viol_dir, "%s-%s.json" % (ctx.prop, h))
        with open(path, "w") as f:
            json.dump({"property": ctx.prop, **v}, f, indent=1, default=str)
        print("FINDING %s %s: %s" % (v["key"], v.get("loc") or "", v["msg"]))
        print("VIOLATION property=%s replay=%s" % (ctx.prop, path))
    for nv in ctx.noverdict:
        print("NO-VERDICT property=%s rule=%s %s: %s %s" % (ctx.prop, nv["rule"], nv["kind"], nv["msg"], nv.get("loc") or ""))
    held = [i for i in ctx.instances if i["verdict"] == "holds"]
    sites = sorted({(i["rule"], i["site"]) for i in ctx.instances})
    samples = []
    per_rule = {}
    for i in ctx.instances:
        per_rule.setdefault(i["rule"], []).append(i)
    for rid, lst in per_rule.items():
        for i in lst[:3]:
            samples.append({k: v for k, v in i.items() if v is not None})
    wall = time.time() - ctx.t0
    ev = {
        "property_id": ctx.prop,
        "tier": ctx.tier,
        "seed": ctx.seed,
        "level": level,
        "coverage": {
            "explanation": "Static analysis of /repo's current working tree (type-checked program and MIR dumped by the "
                           "grexfacts rustc driver; no code of /repo is executed). Rules applied: "
                           + " | ".join("%s: %s" % (k, v) for k, v in ctx.rules.items()),
            "evaluations": len(ctx.instances),
            "distinct_nontrivial": len(sites),
            "rule": "one evaluation = one rule instance (a call site, function, constant, table row set or abstract path "
                    "valuation) located in the current source and decided; distinct = distinct (rule, site) pairs; "
                    "every instance is non-trivial in that it is a construct found in the program, not a template",
            "samples": samples[:60],
            "instances_per_rule": {k: len(v) for k, v in per_rule.items()},
            "instances_holding": len(held),
            "views": ctx.views,
            "known_findings_matched": [k["key"] for _, k in listed],
            "no_verdict": ctx.noverdict,
            "notes": ctx.notes,
            **ctx.extra,
        },
        "assumptions": ctx.assumptions,
        "wall_s": round(wall, 2),
        "violations": len(unlisted),
    }
    os.makedirs(evdir, exist_ok=True)
    with open(os.path.join(evdir, "%s.json" % ctx.prop), "w") as f:
        json.dump(ev, f, indent=1, default=str)
    print("%s: %d rule instances over %d sites, %d hold, %d known finding(s), %d violation(s), %d undecided [%.1fs]" % (
        ctx.prop, len(ctx.instances), len(sites), len(held), len(listed), len(unlisted), len(ctx.noverdict), wall))
    if unlisted:
        return 1
    if ctx.noverdict:
        print("NO VERDICT for %s: the analysis could not decide %d rule instance(s) on this tree (exit 2; not a violation)" % (ctx.prop, len(ctx.noverdict)))
        return 2
    return 0


def unlisted_violations(ctx):
    known = load_known()
    open_keys = {(k["property"], k["key"]) for k in known.get("open", [])}
    return [v for v in ctx.violations if (ctx.prop, v["key"]) not in open_keys]
