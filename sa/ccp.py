"""Path-splitting conditional constant propagation over dumped MIR.

An abstract interpreter: values are constants, aggregates, references to abstract
cells, string templates, and *symbolic atoms* identified by their defining
expression (parameter field reads, results of pure calls, comparisons).  At a
switch on a constant the taken edge is followed; at a switch on an atom the path
forks, one successor state per target, and the choice is recorded as a fact so
later reads of the same atom agree.  Crate-local callees chosen by the rule are
inlined; a few std callees are modelled; every other call yields an opaque value
keyed by (callee, arguments) and is recorded as an event.  The result for a
function is the finite set of leaves (facts, return value, ordered events).

There is no solver and no arithmetic; infeasible atom combinations are enumerated
too.  Loops are not summarised: a path that enters the same block of the same
frame a third time is cut (leaf kind 'cut').  Nothing of /repo is executed.
"""
import copy
import re

from .facts import norm
from .report import Undecided


# ----------------------------------------------------------------------------- values

class V:
    __slots__ = ()

    def key(self):
        raise NotImplementedError

    def __repr__(self):
        return show(self)


class Const(V):
    __slots__ = ("v",)

    def __init__(self, v):
        self.v = v

    def key(self):
        return ("c", type(self.v).__name__, self.v)


class CharV(V):
    __slots__ = ("c",)

    def __init__(self, c):
        self.c = c

    def key(self):
        return ("ch", self.c)


class Unit(V):
    __slots__ = ()

    def key(self):
        return ("unit",)


class Hole(V):
    """A non-literal part of a string template: the Display of value `v`."""
    __slots__ = ("v", "fmt")

    def __init__(self, v, fmt="display"):
        self.v = v
        self.fmt = fmt

    def key(self):
        return ("hole", self.fmt, self.v.key())


class Tmpl(V):
    """String value: sequence of literal str parts and Holes."""
    __slots__ = ("parts",)

    def __init__(self, parts):
        out = []
        for p in parts:
            if isinstance(p, str):
                if not p:
                    continue
                if out and isinstance(out[-1], str):
                    out[-1] += p
                else:
                    out.append(p)
            elif isinstance(p, Tmpl):
                for q in p.parts:
                    if isinstance(q, str) and out and isinstance(out[-1], str):
                        out[-1] += q
                    else:
                        out.append(q)
            else:
                out.append(p)
        self.parts = out

    def key(self):
        return ("tmpl",) + tuple(p if isinstance(p, str) else p.key() for p in self.parts)

    def is_const(self):
        return all(isinstance(p, str) for p in self.parts)

    def text(self):
        return "".join(p for p in self.parts if isinstance(p, str))


class Agg(V):
    __slots__ = ("kind", "label", "vi", "fields", "names")

    def __init__(self, kind, label, vi, fields, names=None):
        self.kind = kind
        self.label = label
        self.vi = vi
        self.fields = list(fields)
        self.names = names

    def key(self):
        return ("agg", self.kind, self.label, self.vi) + tuple(f.key() if f is not None else None for f in self.fields)


class Cell:
    __slots__ = ("val", "name")

    def __init__(self, val=None, name=None):
        self.val = val
        self.name = name


class Ref(V):
    """Reference to (cell, path-of-field-indices)."""
    __slots__ = ("cell", "path")

    def __init__(self, cell, path=()):
        self.cell = cell
        self.path = tuple(path)

    def key(self):
        v = read_loc(self.cell, self.path)
        return ("ref", v.key() if v is not None else None)


class Sym(V):
    """Root symbol (a parameter, an upvar, a static)."""
    __slots__ = ("name",)

    def __init__(self, name):
        self.name = name

    def key(self):
        return ("sym", self.name)


class Fld(V):
    """Field/variant-field of an opaque value."""
    __slots__ = ("base", "name")

    def __init__(self, base, name):
        self.base = base
        self.name = name

    def key(self):
        return ("fld", self.base.key(), self.name)


class Call(V):
    """Opaque result of a call that was neither modelled nor inlined."""
    __slots__ = ("callee", "args", "uid")

    def __init__(self, callee, args, uid=None):
        self.callee = callee
        self.args = tuple(args)
        self.uid = uid

    def key(self):
        return ("call", self.callee, tuple(a.key() for a in self.args), self.uid)


class Bin(V):
    __slots__ = ("op", "a", "b")

    def __init__(self, op, a, b):
        self.op = op
        self.a = a
        self.b = b

    def key(self):
        return ("bin", self.op, self.a.key(), self.b.key())


class Un(V):
    __slots__ = ("op", "a")

    def __init__(self, op, a):
        self.op = op
        self.a = a

    def key(self):
        return ("un", self.op, self.a.key())


class CastV(V):
    __slots__ = ("a", "ty")

    def __init__(self, a, ty):
        self.a = a
        self.ty = ty

    def key(self):
        return ("cast", self.a.key(), self.ty)


class Discr(V):
    __slots__ = ("a",)

    def __init__(self, a):
        self.a = a

    def key(self):
        return ("discr", self.a.key())


class FmtArg(V):
    __slots__ = ("v", "fmt")

    def __init__(self, v, fmt):
        self.v = v
        self.fmt = fmt

    def key(self):
        return ("fmtarg", self.fmt, self.v.key())


class Top(V):
    __slots__ = ("why",)

    def __init__(self, why=""):
        self.why = why

    def key(self):
        return ("top", self.why)


def is_top(v):
    return isinstance(v, Top)


def show(v, depth=0):
    if depth > 7:
        return "…"
    if v is None:
        return "uninit"
    if isinstance(v, Const):
        return repr(v.v)
    if isinstance(v, CharV):
        return "'%s'" % v.c
    if isinstance(v, Unit):
        return "()"
    if isinstance(v, Hole):
        return "{%s}" % show(v.v, depth + 1)
    if isinstance(v, Tmpl):
        return "`" + "".join(p.replace("\n", "\\n").replace("\x1b", "\\e") if isinstance(p, str) else show(p, depth + 1) for p in v.parts) + "`"
    if isinstance(v, Agg):
        return "%s(%s)" % (v.label or v.kind, ", ".join(show(f, depth + 1) for f in v.fields))
    if isinstance(v, Ref):
        return "&" + show(read_loc(v.cell, v.path), depth + 1)
    if isinstance(v, Sym):
        return v.name
    if isinstance(v, Fld):
        return "%s.%s" % (show(v.base, depth + 1), v.name)
    if isinstance(v, Call):
        return "%s(%s)%s" % (v.callee, ", ".join(show(a, depth + 1) for a in v.args), ("#%s" % (v.uid,)) if v.uid is not None else "")
    if isinstance(v, Bin):
        return "%s(%s, %s)" % (v.op, show(v.a, depth + 1), show(v.b, depth + 1))
    if isinstance(v, Un):
        return "%s(%s)" % (v.op, show(v.a, depth + 1))
    if isinstance(v, CastV):
        return "(%s as %s)" % (show(v.a, depth + 1), v.ty)
    if isinstance(v, Discr):
        return "discr(%s)" % show(v.a, depth + 1)
    if isinstance(v, FmtArg):
        return "arg:%s(%s)" % (v.fmt, show(v.v, depth + 1))
    if isinstance(v, Top):
        return "⊤" + (("[%s]" % v.why) if v.why else "")
    return "?"


def read_loc(cell, path):
    v = cell.val
    for i in path:
        if isinstance(v, Agg):
            if isinstance(i, int) and i < len(v.fields):
                v = v.fields[i]
            else:
                return Top("bad field")
        elif v is None:
            return None
        elif isinstance(v, Top):
            return v
        else:
            v = Fld(v, str(i))
    return v


def strip_ref(v):
    """Follow references to the referenced value."""
    n = 0
    while isinstance(v, Ref) and n < 20:
        v = read_loc(v.cell, v.path)
        n += 1
    return v


def to_tmpl(v, fmt="display"):
    """String rendering of an abstract value as a template."""
    v = strip_ref(v)
    if isinstance(v, Tmpl):
        return v if fmt == "display" else Tmpl([Hole(v, fmt)])
    if isinstance(v, Const):
        if isinstance(v.v, str):
            return Tmpl([v.v]) if fmt == "display" else Tmpl([Hole(v, fmt)])
        if isinstance(v.v, bool):
            return Tmpl(["true" if v.v else "false"])
        if isinstance(v.v, int):
            if fmt == "display":
                return Tmpl([str(v.v)])
            if fmt == "lower_hex":
                return Tmpl(["%x" % v.v])
            return Tmpl([Hole(v, fmt)])
    if isinstance(v, CharV) and fmt == "display":
        return Tmpl([v.c])
    if v is None:
        v = Top("uninit")
    return Tmpl([Hole(v, fmt)])


# ----------------------------------------------------------------------------- machine

class Frame:
    __slots__ = ("body", "mir", "path", "cells", "block", "idx", "dest", "ret_block", "on_return", "visits", "depth")

    def __init__(self, body_path, mir, depth):
        self.path = body_path
        self.mir = mir
        self.cells = [Cell(None, l.get("name")) for l in mir["locals"]]
        self.block = 0
        self.idx = 0
        self.dest = None
        self.ret_block = None
        self.on_return = None
        self.visits = {}
        self.depth = depth

    def __deepcopy__(self, memo):
        f = Frame.__new__(Frame)
        f.path = self.path
        f.mir = self.mir            # shared, read-only
        f.cells = copy.deepcopy(self.cells, memo)
        f.block = self.block
        f.idx = self.idx
        f.dest = self.dest          # shared JSON place
        f.ret_block = self.ret_block
        f.on_return = copy.deepcopy(self.on_return, memo)
        f.visits = dict(self.visits)
        f.depth = self.depth
        return f


class State:
    def __init__(self):
        self.frames = []
        self.facts = {}        # atom key -> V
        self.label = []        # list of (shown atom, shown value)
        self.events = []       # list of dict
        self.uid = 0
        self.excl = {}         # atom key -> set of excluded values
        self.member = {}       # atom key -> list of values the atom is known to be one of

    def fork(self):
        return copy.deepcopy(self)


class Leaf:
    def __init__(self, kind, value, state, info=None):
        self.kind = kind          # return | panic | diverge | cut | unreachable
        self.value = value
        self.facts = dict(state.facts)
        self.label = list(state.label)
        self.events = list(state.events)
        self.info = info
        self.member = dict(state.member)
        self.excl = {k: set(v) for k, v in state.excl.items()}

    def fact(self, v_or_key):
        k = v_or_key.key() if isinstance(v_or_key, V) else v_or_key
        f = self.facts.get(k)
        if isinstance(f, Const):
            return f.v
        return None

    def __repr__(self):
        return "<Leaf %s %s | %s>" % (self.kind, show(self.value), ", ".join("%s=%s" % kv for kv in self.label))


PANIC_FNS = (
    "core::panicking::panic_fmt", "core::panicking::panic_display", "core::panicking::panic",
    "std::rt::begin_panic", "core::panicking::panic_explicit", "core::panicking::unreachable_display",
    "std::rt::panic_fmt", "core::panicking::panic_nounwind", "core::panicking::panic_str_2015",
    "core::panicking::assert_failed", "core::option::unwrap_failed", "core::result::unwrap_failed",
    "core::option::expect_failed", "std::process::exit",
)

IDENTITY_FNS = (
    "<std::string::String as std::ops::Deref>::deref", "std::string::String::as_str",
    "<std::vec::Vec<T, A> as std::ops::Deref>::deref", "std::hint::must_use",
    "<std::string::String as std::clone::Clone>::clone", "<T as std::convert::From<T>>::from",
    "<T as std::convert::Into<U>>::into", "std::boxed::Box::<T>::new", "<std::boxed::Box<T> as std::convert::From<T>>::from",
    "<std::string::String as std::convert::From<&str>>::from", "std::borrow::ToOwned::to_owned",
    "<str as std::borrow::ToOwned>::to_owned", "<std::string::String as std::borrow::Borrow<str>>::borrow",
    "<std::string::String as std::convert::AsRef<str>>::as_ref", "std::string::String::as_mut_str",
    "<bool as std::clone::Clone>::clone", "<std::string::String as std::ops::DerefMut>::deref_mut",
    "core::str::<impl str>::to_string", "<&T as std::ops::Deref>::deref",
)


class Machine:
    def __init__(self, crates, inline=None, facts=None, max_leaves=4096, max_visits=2, max_depth=6,
                 pure=None, on_call=None, max_steps=400000):
        """crates: list of facts.Crate whose bodies may be inlined.
        inline(name) -> bool: which crate-local callees to inline.
        facts: dict atom-key -> V preset by the rule.
        on_call(machine, state, name, args, term) -> V|None: rule-specific call models."""
        self.bodies = {}
        self.display_impls = {}
        for cr in crates:
            for b in cr.bodies:
                self.bodies.setdefault(b.path, b)
                if b.impl_trait == "std::fmt::Display" and b.path.endswith("::fmt"):
                    self.display_impls[b.impl_self] = b
        self.inline = inline or (lambda n: False)
        self.preset = facts or {}
        self.max_leaves = max_leaves
        self.max_visits = max_visits
        self.max_depth = max_depth
        self.max_steps = max_steps
        self.pure = pure
        self.on_call = on_call
        self.leaves = []
        self.steps = 0
        self.concrete_iter = True
        self.havocked = 0

    # ---- public
    def run(self, body, args=None, start_block=0):
        """args: list of V for the MIR argument locals (default Sym('argN' / names))."""
        try:
            self.concrete_iter = True
            return self._run(body, args, start_block)
        except Undecided as e:
            if "abstract paths" not in str(e) and "step budget" not in str(e):
                raise
            # path explosion while unrolling a constant loop with branches inside: fall back to loop summaries
            self.concrete_iter = False
            self.steps = 0
            return self._run(body, args, start_block)

    def _run(self, body, args=None, start_block=0):
        st = State()
        st.facts.update(self.preset)
        fr = Frame(body.path, body.mir, 0)
        n = body.arg_count
        if args is None:
            args = []
            for i in range(1, n + 1):
                nm = body.locals[i].get("name") or ("arg%d" % i)
                args.append(Sym(nm))
        for i, a in enumerate(args):
            fr.cells[i + 1].val = a
        fr.block = start_block
        st.frames.append(fr)
        self.leaves = []
        work = [st]
        while work:
            s = work.pop()
            self._run_state(s, work)
            if len(self.leaves) + len(work) > self.max_leaves:
                raise Undecided("more than %d abstract paths in %s" % (self.max_leaves, body.path))
        return self.leaves

    # ---- evaluation helpers
    def resolve(self, st, v):
        """Apply recorded facts to an atom."""
        if isinstance(v, (Const, CharV, Agg, Tmpl, Ref, Unit)) or v is None:
            return v
        try:
            k = v.key()
        except Exception:
            return v
        f = st.facts.get(k)
        if f is not None:
            return f
        return v

    def eval_place(self, st, fr, pl):
        """Returns ('loc', cell, path) or ('val', V)."""
        cell = fr.cells[pl["l"]]
        mode = ("loc", cell, ())
        for e in pl["proj"]:
            k = e["k"]
            if k == "deref":
                v = self._read_mode(st, mode)
                if isinstance(v, Ref):
                    mode = ("loc", v.cell, v.path)
                else:
                    mode = ("val", v if v is not None else Top("deref of uninit"))
            elif k == "field":
                if mode[0] == "loc":
                    cur = read_loc(mode[1], mode[2])
                    if isinstance(cur, Agg):
                        mode = ("loc", mode[1], mode[2] + (e["i"],))
                        continue
                    base = cur if cur is not None else Top("field of uninit")
                else:
                    base = mode[1]
                if isinstance(base, Agg) and e["i"] < len(base.fields):
                    mode = ("val", base.fields[e["i"]])
                elif isinstance(base, Top):
                    mode = ("val", base)
                else:
                    nm = e.get("upvar") or e.get("name") or str(e["i"])
                    if e.get("variant") and e.get("adt") and e.get("name") is not None and e["name"].isdigit():
                        nm = "%s.%s" % (e["variant"], e["name"])
                    mode = ("val", self.resolve(st, Fld(base, nm)))
            elif k == "downcast":
                continue
            elif k == "index":
                iv = strip_ref(fr.cells[e["l"]].val)
                if mode[0] == "loc" and isinstance(iv, Const) and isinstance(read_loc(mode[1], mode[2]), Agg):
                    mode = ("loc", mode[1], mode[2] + (iv.v,))
                else:
                    base = self._read_mode(st, mode)
                    if base is None or is_top(base) or iv is None or is_top(iv):
                        mode = ("val", Top("index"))
                    else:
                        mode = ("val", self.resolve(st, Fld(strip_ref(base), "[%s]" % show(iv))))
            elif k == "constindex" and not e.get("from_end"):
                if mode[0] == "loc" and isinstance(read_loc(mode[1], mode[2]), Agg):
                    mode = ("loc", mode[1], mode[2] + (e["offset"],))
                else:
                    mode = ("val", Top("constindex"))
            else:
                mode = ("val", Top("projection " + k))
        return mode

    def _read_mode(self, st, mode):
        if mode[0] == "loc":
            v = read_loc(mode[1], mode[2])
        else:
            v = mode[1]
        return self.resolve(st, v)

    def read_place(self, st, fr, pl):
        v = self._read_mode(st, self.eval_place(st, fr, pl))
        return v if v is not None else Top("uninit _%d" % pl["l"])

    def eval_operand(self, st, fr, op):
        k = op["k"]
        if k in ("copy", "move"):
            return self.read_place(st, fr, op["place"])
        if k == "const":
            return self.const_value(st, fr, op["c"])
        return Top("operand")

    def const_value(self, st, fr, c):
        t = c.get("t")
        if t == "bool":
            return Const(bool(c["v"]))
        if t == "int":
            return Const(int(c["v"]))
        if t == "char":
            return CharV(chr(c["v"]))
        if t == "str":
            return Tmpl([c["v"]])
        if t == "bytes":
            return Const(bytes(c["v"]))
        if t == "zst":
            return Unit()
        if t == "fn":
            return Sym("fn " + norm(c["path"]))
        if t == "seq":
            return Agg("array", None, None, [self.const_value(st, fr, x) for x in c["v"]])
        if t == "tuple":
            return Agg("tuple", None, None, [self.const_value(st, fr, x) for x in c["v"]])
        if t == "static_ref":
            return Sym("static " + norm(c["path"]))
        if t == "struct":
            return Agg("adt", norm(c["path"]), 0, [self.const_value(st, fr, f["value"]) for f in c["fields"]],
                       [f["name"] for f in c["fields"]])
        if t == "uneval":
            if "value" in c and c["value"].get("t") not in ("other", None):
                return self.const_value(st, fr, c["value"])
            if c.get("promoted") is not None:
                return self.eval_promoted(st, fr, norm(c["path"]), c["promoted"])
            return Sym("const " + norm(c["path"]))
        return Top("const " + str(t))

    def eval_promoted(self, st, fr, path, idx):
        b = self.bodies.get(path)
        if b is None or idx >= len(b.promoted):
            return Top("promoted")
        mir = b.promoted[idx]
        pf = Frame(path + "::promoted[%d]" % idx, mir, fr.depth + 1)
        # promoted bodies are straight-line
        bi = 0
        guard = 0
        while guard < 64:
            guard += 1
            blk = mir["blocks"][bi]
            for s in blk["stmts"]:
                if s["k"] == "assign":
                    self.assign(st, pf, s["place"], self.eval_rvalue(st, pf, s["rv"]))
            t = blk["term"]
            if t["k"] == "return":
                return pf.cells[0].val if pf.cells[0].val is not None else Top("promoted ret")
            if t["k"] == "goto":
                bi = t["target"]
                continue
            return Top("promoted control flow")
        return Top("promoted loop")

    def eval_rvalue(self, st, fr, rv):
        k = rv["k"]
        if k == "use":
            return self.eval_operand(st, fr, rv["op"])
        if k in ("ref", "rawptr"):
            m = self.eval_place(st, fr, rv["place"])
            if m[0] == "loc":
                return Ref(m[1], m[2])
            return m[1]      # references to symbolic places are transparent
        if k == "binop":
            a = strip_ref(self.eval_operand(st, fr, rv["a"]))
            b = strip_ref(self.eval_operand(st, fr, rv["b"]))
            return self.binop(st, rv["op"], a, b)
        if k == "unop":
            a = strip_ref(self.eval_operand(st, fr, rv["a"]))
            op = rv["op"]
            if op == "Not" and isinstance(a, Const) and isinstance(a.v, bool):
                return Const(not a.v)
            if op == "Neg" and isinstance(a, Const) and isinstance(a.v, int):
                return Const(-a.v)
            if op == "PtrMetadata":
                return self.resolve(st, Call("len", [a]))
            if is_top(a):
                return a
            return self.resolve(st, Un(op, a))
        if k == "cast":
            a = self.eval_operand(st, fr, rv["a"])
            sa = strip_ref(a)
            if isinstance(sa, Const) and isinstance(sa.v, int) and not isinstance(sa.v, bool):
                return sa
            if isinstance(sa, CharV) and rv["kind"].startswith("IntToInt"):
                return Const(ord(sa.c))
            if "Unsize" in rv["kind"] or "PtrToPtr" in rv["kind"] or "Transmute" in rv["kind"] or "Subtype" in rv["kind"]:
                return a
            if is_top(sa):
                return sa
            return self.resolve(st, CastV(sa, norm(rv["ty"])))
        if k == "discr":
            a = strip_ref(self.read_place(st, fr, rv["place"]))
            if isinstance(a, Agg) and a.vi is not None:
                return Const(a.vi)
            if is_top(a):
                return a
            return self.resolve(st, Discr(a))
        if k == "aggregate":
            ops = [self.eval_operand(st, fr, o) for o in rv["ops"]]
            a = rv["agg"]
            if a == "adt":
                return Agg("adt", "%s::%s" % (norm(rv["adt"]), rv["variant"]), rv["vi"], ops, rv.get("fields"))
            if a == "closure":
                return Agg("closure", norm(rv["closure"]), None, ops)
            if a in ("tuple", "array"):
                return Agg(a, None, None, ops)
            return Top("aggregate " + a)
        if k == "repeat":
            return Top("repeat")
        return Top("rvalue " + k)

    def binop(self, st, op, a, b):
        base = op.replace("WithOverflow", "").replace("Unchecked", "")
        av = a.v if isinstance(a, Const) else (a.c if isinstance(a, CharV) else None)
        bv = b.v if isinstance(b, Const) else (b.c if isinstance(b, CharV) else None)
        if av is not None and bv is not None and type(av) == type(bv):
            try:
                r = {"Eq": lambda: av == bv, "Ne": lambda: av != bv, "Lt": lambda: av < bv, "Le": lambda: av <= bv,
                     "Gt": lambda: av > bv, "Ge": lambda: av >= bv}.get(base)
                if r is not None:
                    return Const(bool(r()))
                if isinstance(av, int) and not isinstance(av, bool):
                    r = {"Add": lambda: av + bv, "Sub": lambda: av - bv, "Mul": lambda: av * bv,
                         "BitAnd": lambda: av & bv, "BitOr": lambda: av | bv}.get(base)
                    if r is not None:
                        val = Const(r())
                        if op.endswith("WithOverflow"):
                            return Agg("tuple", None, None, [val, Const(False)])
                        return val
                if isinstance(av, bool):
                    r = {"BitAnd": lambda: av and bv, "BitOr": lambda: av or bv, "BitXor": lambda: av != bv}.get(base)
                    if r is not None:
                        return Const(bool(r()))
            except Exception:
                pass
        if is_top(a) or is_top(b):
            v = Top("binop")
        else:
            v = self.resolve(st, Bin(base, a, b))
        if op.endswith("WithOverflow"):
            return Agg("tuple", None, None, [v, Const(False)])
        return v

    def assign(self, st, fr, pl, val):
        m = self.eval_place_for_write(st, fr, pl)
        if m[0] == "loc":
            cell, path = m[1], m[2]
            if not path:
                cell.val = val
                return
            cur = cell.val
            for i in path[:-1]:
                if isinstance(cur, Agg) and isinstance(i, int) and i < len(cur.fields):
                    cur = cur.fields[i]
                else:
                    cur = None
                    break
            if isinstance(cur, Agg) and isinstance(path[-1], int) and path[-1] < len(cur.fields):
                cur.fields[path[-1]] = val
            else:
                st.events.append({"k": "write", "target": "untracked", "value": val, "fn": fr.path})
        else:
            st.events.append({"k": "write", "target": m[1], "value": val, "fn": fr.path})

    def eval_place_for_write(self, st, fr, pl):
        if not pl["proj"]:
            return ("loc", fr.cells[pl["l"]], ())
        # evaluate all but the last projection as a read, then extend
        head = {"l": pl["l"], "proj": pl["proj"][:-1]}
        last = pl["proj"][-1]
        m = self.eval_place(st, fr, head)
        if last["k"] == "field":
            if m[0] == "loc":
                cur = read_loc(m[1], m[2])
                if isinstance(cur, Agg):
                    return ("loc", m[1], m[2] + (last["i"],))
                base = cur if cur is not None else Top("uninit")
            else:
                base = m[1]
            nm = last.get("upvar") or last.get("name") or str(last["i"])
            return ("val", Fld(base, nm))
        if last["k"] == "deref":
            v = self._read_mode(st, m)
            if isinstance(v, Ref):
                return ("loc", v.cell, v.path)
            return ("val", v if v is not None else Top("uninit"))
        return ("val", Top("write through " + last["k"]))

    # ---- the run loop for one state
    def _run_state(self, st, work):
        self._work = work
        while True:
            self.steps += 1
            if self.steps > self.max_steps:
                raise Undecided("step budget exhausted")
            fr = st.frames[-1]
            blk = fr.mir["blocks"][fr.block]
            if fr.idx == 0:
                n = fr.visits.get(fr.block, 0) + 1
                fr.visits[fr.block] = n
                if n > self.max_visits:
                    if not self._havoc_loop(st, fr):
                        self.leaves.append(Leaf("cut", None, st, {"fn": fr.path, "block": fr.block}))
                        return
                    continue
            stmts = blk["stmts"]
            while fr.idx < len(stmts):
                s = stmts[fr.idx]
                fr.idx += 1
                if s["k"] == "assign":
                    self.assign(st, fr, s["place"], self.eval_rvalue(st, fr, s["rv"]))
                elif s["k"] == "setdiscr":
                    pass
            t = blk["term"]
            k = t["k"]
            if k == "goto":
                self._goto(fr, t["target"])
            elif k == "drop":
                self._goto(fr, t["target"])
            elif k == "assert":
                c = strip_ref(self.eval_operand(st, fr, t["cond"]))
                if isinstance(c, Const) and c.v != t["expected"]:
                    self.leaves.append(Leaf("panic", None, st, {"assert": t["kind"], "fn": fr.path}))
                    return
                self._goto(fr, t["target"])
            elif k == "return":
                ret = fr.cells[0].val
                if ret is None:
                    ret = Unit()
                st.frames.pop()
                if fr.on_return is not None:
                    kind, buf, wrap = fr.on_return
                    if kind == "some":
                        ret = Agg("adt", "std::option::Option::Some", 1, [ret])
                    else:
                        tm = buf.val if isinstance(buf.val, Tmpl) else Tmpl([Hole(Top("fmtbuf"))])
                        ret = tm if wrap == "tmpl" else FmtArg(tm, "display")
                if not st.frames:
                    self.leaves.append(Leaf("return", ret, st))
                    return
                caller = st.frames[-1]
                if fr.dest is not None:
                    self.assign(st, caller, fr.dest, ret)
                if fr.ret_block is None:
                    self.leaves.append(Leaf("diverge", None, st, {"fn": caller.path}))
                    return
                self._goto(caller, fr.ret_block)
            elif k == "unreachable":
                self.leaves.append(Leaf("unreachable", None, st, {"fn": fr.path}))
                return
            elif k == "switch":
                if self._switch(st, fr, t, work):
                    return
            elif k == "call":
                if self._call(st, fr, t):
                    return
            else:
                self.leaves.append(Leaf("diverge", None, st, {"term": k, "fn": fr.path}))
                return

    def _havoc_loop(self, st, fr):
        """Summarise the natural loop whose header is reached for the third time on this path: every local assigned in the
        loop becomes Call("<loop>", [its current value]) (so string-to-string chains keep their inner template), and the
        path continues at the loop's exit. Returns False if the block is not a loop header with a single exit target."""
        from . import cfgkit
        key = id(fr.mir)
        cache = self.__dict__.setdefault("_loopcache", {})
        if key not in cache:
            cfg = cfgkit.CFG(fr.mir)
            cache[key] = (cfg, cfg.natural_loops())
        cfg, loops = cache[key]
        L = None
        header = fr.block
        if header in loops:
            L = loops[header]
        else:
            # the repeatedly visited block may be inside the loop body: pick the innermost loop containing it
            cands = [(len(b), h, b) for h, b in loops.items() if header in b]
            if cands:
                _, header, L = min(cands)
        if L is None:
            return False
        exits = []
        for b in L:
            for sx in cfg.succ[b]:
                if sx not in L and fr.mir["blocks"][sx].get("term", {}).get("k") != "unreachable" and sx not in exits:
                    exits.append(sx)
        if len(exits) != 1:
            return False
        assigned = set()
        for b in L:
            blk = fr.mir["blocks"][b]
            for s_ in blk["stmts"]:
                if s_["k"] == "assign":
                    assigned.add(s_["place"]["l"])
            t = blk.get("term")
            if t and t["k"] == "call":
                assigned.add(t["dest"]["l"])
        tag = "<loop %s bb%d>" % (fr.path.rsplit("::", 1)[-1], header)
        for l in assigned:
            cur = fr.cells[l].val
            if cur is None:
                continue
            cur = strip_ref(cur)
            fr.cells[l].val = Call(tag, [cur if cur is not None else Top("uninit")], "h%d" % l)
        st.events.append({"k": "loop_summary", "fn": fr.path, "header": header, "locals": sorted(assigned)})
        st.label.append((tag, "summarised"))
        self.havocked += 1
        for b in L:
            fr.visits.pop(b, None)
        self._goto(fr, exits[0])
        return True

    @staticmethod
    def _goto(fr, target):
        fr.block = target
        fr.idx = 0

    def _switch(self, st, fr, t, work):
        """returns True if this state ended (forked)"""
        v = strip_ref(self.eval_operand(st, fr, t["discr"]))
        dty = t.get("discr_ty", "")
        cv = None
        if isinstance(v, Const):
            cv = int(v.v)
        elif isinstance(v, CharV):
            cv = ord(v.c)
        if cv is not None:
            tgt = t["otherwise"]
            for val, b in t["arms"]:
                if val == cv:
                    tgt = b
                    break
            self._goto(fr, tgt)
            return False
        # fork per target
        targets = []
        for val, b in t["arms"]:
            for tt in targets:
                if tt[0] == b:
                    tt[1].append(val)
                    break
            else:
                targets.append((b, [val]))
        arm_vals = [val for val, _ in t["arms"]]
        key = None if is_top(v) else v.key()
        excl = st.excl.get(key, set()) if key is not None else set()
        forks = []
        for b, vals in targets:
            vals = [x for x in vals if x not in excl]
            if not vals:
                continue
            forks.append((b, vals, False))
        # otherwise edge
        other_possible = True
        if dty == "bool":
            rest = [x for x in (0, 1) if x not in arm_vals and x not in excl]
            if rest:
                forks.append((t["otherwise"], rest, False))
            other_possible = False
        if other_possible:
            forks.append((t["otherwise"], None, True))
        # targets that are `unreachable` terminators are compiler-proved impossible: do not explore them
        def _dead(bb):
            blk = fr.mir["blocks"][bb]
            return not blk["stmts"] and blk.get("term", {}).get("k") == "unreachable"
        live = [f for f in forks if not _dead(f[0])]
        if live:
            forks = live
        frame_index = len(st.frames) - 1
        for i, (b, vals, is_other) in enumerate(forks):
            s2 = st.fork() if i < len(forks) - 1 else st
            f2 = s2.frames[frame_index]
            if key is not None:
                if not is_other and len(vals) == 1:
                    cval = Const(bool(vals[0])) if dty == "bool" else (CharV(chr(vals[0])) if dty == "char" else Const(vals[0]))
                    s2.facts[key] = cval
                    if dty == "bool" and isinstance(v, Un) and v.op == "Not" and not is_top(v.a):
                        # knowing !x is knowing x
                        inner = Const(not bool(vals[0]))
                        s2.facts[v.a.key()] = inner
                        s2.label.append((show(v.a), show(inner)))
                    else:
                        s2.label.append((show(v), show(cval)))
                elif not is_other:
                    s2.member[key] = list(vals)
                    s2.label.append((show(v), "in %s" % (vals,)))
                else:
                    s2.excl.setdefault(key, set()).update(arm_vals)
                    s2.label.append((show(v), "not in %s" % (sorted(s2.excl[key]),)))
            else:
                s2.label.append(("⊤@%s:bb%d" % (fr.path, fr.block), "->bb%d" % b))
            self._goto(f2, b)
            if s2 is not st:
                work.append(s2)
        work.append(st)
        return True

    # ---- calls
    def _call(self, st, fr, t):
        """returns True if the state ended"""
        c = t["callee"]
        if "indirect" in c:
            name = "<indirect>"
        else:
            name = norm(c.get("res") or c["decl"])
        args = [self.eval_operand(st, fr, a) for a in t["args"]]
        targs = [norm(x) for x in (c.get("res_args") or c.get("args") or [])]
        # rule-specific model first
        if self.on_call is not None:
            r = self.on_call(self, st, name, args, t)
            if r is not None:
                return self._ret(st, fr, t, r)
        if name in PANIC_FNS or name.startswith("core::panicking::") or name.endswith("unwrap_failed") \
                or (t["target"] is None and "panic" in name):
            sargs = [self._argkey(a) for a in args]
            st.events.append({"k": "panic", "callee": name, "args": sargs, "fn": fr.path, "line": t.get("line")})
            self.leaves.append(Leaf("panic", None, st, {"callee": name, "args": sargs, "fn": fr.path, "line": t.get("line")}))
            return True
        m = self._model(st, fr, name, args, targs, t)
        if m is not None:
            if m == "pushed":
                return False
            return self._ret(st, fr, t, m)
        # call of a closure value through the Fn* traits ("rust-call": the arguments arrive as one tuple)
        decl = norm(c.get("decl") or "") if "indirect" not in c else ""
        if re.search(r"ops::Fn(?:Once|Mut)?(?:<.*>>)?::call(?:_once|_mut)?$", decl) and len(args) == 2:
            clo = strip_ref(args[0])
            tup = strip_ref(args[1])
            if isinstance(clo, Agg) and clo.kind == "closure" and clo.label in self.bodies and fr.depth < self.max_depth \
                    and isinstance(tup, Agg) and tup.kind == "tuple":
                self._push(st, fr, t, self.bodies[clo.label], [self._closure_self(clo)] + list(tup.fields))
                return False
        body = self.bodies.get(name)
        if body is not None and self.inline(name) and fr.depth < self.max_depth:
            self._push(st, fr, t, body, args)
            return False
        # opaque
        uid = None
        if not self._is_pure(name, t):
            st.uid += 1
            uid = "%s@bb%d#%d" % (fr.path.split("::")[-1], fr.block, fr.visits.get(fr.block, 1))
        v = self.resolve(st, Call(name, [self._argkey(a) for a in args], uid))
        st.events.append({"k": "call", "callee": name, "args": [self._argkey(a) for a in args], "value": v, "fn": fr.path, "line": t.get("line"),
                          "block": fr.block, "targs": targs})
        return self._ret(st, fr, t, v)

    @staticmethod
    def _argkey(a):
        a2 = strip_ref(a)
        return a2 if a2 is not None else Top("uninit")

    def _is_pure(self, name, t):
        if self.pure is not None:
            r = self.pure(name)
            if r is not None:
                return r
        for a in t["args"]:
            pl = a.get("place")
            if pl is not None and norm(pl["ty"]).startswith("&mut"):
                return False
        return True

    def _ret(self, st, fr, t, v):
        if t["target"] is None:
            self.leaves.append(Leaf("diverge", None, st, {"callee": norm(t["callee"].get("decl", "?")), "fn": fr.path}))
            return True
        self.assign(st, fr, t["dest"], v)
        self._goto(fr, t["target"])
        return False

    def _closure_self(self, clo):
        """first argument of a closure body: the closure by value (FnOnce closures) or a reference to it"""
        b = self.bodies[clo.label]
        ty = norm(b.locals[1]["ty"]) if len(b.locals) > 1 else ""
        return Ref(Cell(clo)) if ty.startswith("&") else clo

    def _push(self, st, fr, t, body, args, on_return=None):
        nf = Frame(body.path, body.mir, fr.depth + 1)
        for i, a in enumerate(args):
            if i + 1 < len(nf.cells):
                nf.cells[i + 1].val = a
        nf.dest = t["dest"]
        nf.ret_block = t["target"]
        nf.on_return = on_return
        st.frames.append(nf)

    @staticmethod
    def _elements(v):
        """Remaining elements of a concrete iterable abstract value, or None."""
        if isinstance(v, Agg) and v.kind == "array":
            return list(v.fields)
        if isinstance(v, Agg) and v.kind == "listiter":
            return list(v.fields[0].fields[v.fields[1].v:])
        if isinstance(v, Agg) and v.kind == "adt" and v.label and v.label.startswith("std::ops::Range") and len(v.fields) >= 2:
            lo, hi = v.fields[0], v.fields[1]
            incl = "RangeInclusive" in v.label
            if isinstance(lo, CharV) and isinstance(hi, CharV):
                a, b = ord(lo.c), ord(hi.c) + (1 if incl else 0)
                if b - a > 4096:
                    return None
                return [CharV(chr(x)) for x in range(a, b) if not (0xD800 <= x <= 0xDFFF)]
            if isinstance(lo, Const) and isinstance(hi, Const) and isinstance(lo.v, int) and isinstance(hi.v, int) and not isinstance(lo.v, bool):
                b = hi.v + (1 if incl else 0)
                if b - lo.v > 4096:
                    return None
                return [Const(x) for x in range(lo.v, b)]
        return None

    def _display_body(self, tyname):
        t = norm(tyname)
        while t.startswith("&"):
            t = t[1:].strip()
            if t.startswith("mut "):
                t = t[4:]
        return self.display_impls.get(t)

    def _model(self, st, fr, name, args, targs, t):
        if name == "std::string::String::new":
            return Tmpl([])
        if name in IDENTITY_FNS and args:
            return args[0]
        if name.endswith("::to_string") and ("ToString" in name or name.endswith("str>::to_string")) and args:
            v = strip_ref(args[0])
            tyn = targs[-1] if targs else ""
            db = self._display_body(tyn)
            if db is not None and self.inline(db.path) and fr.depth < self.max_depth and not isinstance(v, (Tmpl, Const, CharV)):
                return self._push_display(st, fr, t, db, args[0], wrap="tmpl")
            return to_tmpl(v)
        if name.startswith("core::fmt::rt::Argument::new_") and args:
            kind = name.rsplit("new_", 1)[1]
            v = strip_ref(args[0])
            tyn = targs[-1] if targs else ""
            if kind == "display":
                db = self._display_body(tyn)
                if db is not None and self.inline(db.path) and fr.depth < self.max_depth and not isinstance(v, (Tmpl, Const, CharV)):
                    return self._push_display(st, fr, t, db, args[0], wrap="fmtarg")
            return FmtArg(v if v is not None else Top("uninit"), kind)
        if name in ("std::fmt::Arguments::new", "std::fmt::Arguments::<'a>::new") and len(args) == 2:
            return self._arguments_new(strip_ref(args[0]), strip_ref(args[1]))
        if name in ("std::fmt::Arguments::from_str", "std::fmt::Arguments::from_str_nonconst",
                    "std::fmt::Arguments::<'a>::from_str", "std::fmt::Arguments::<'a>::from_str_nonconst") and args:
            return to_tmpl(args[0])
        if name in ("std::fmt::format", "alloc::fmt::format") and args:
            v = strip_ref(args[0])
            return v if isinstance(v, Tmpl) else Tmpl([Hole(v)])
        if name in ("std::fmt::Formatter::write_fmt", "std::fmt::Formatter::<'a>::write_fmt",
                    "std::fmt::Formatter::write_str", "std::fmt::Formatter::<'a>::write_str",
                    "<std::fmt::Formatter as std::fmt::Write>::write_str", "<std::fmt::Formatter<'_> as std::fmt::Write>::write_str") and len(args) == 2:
            f = args[0]
            piece = to_tmpl(args[1])
            if isinstance(f, Ref) and isinstance(read_loc(f.cell, f.path), Tmpl):
                cur = read_loc(f.cell, f.path)
                newv = Tmpl(cur.parts + piece.parts)
                if not f.path:
                    f.cell.val = newv
                else:
                    st.events.append({"k": "write_fmt", "target": f, "value": piece, "fn": fr.path})
            else:
                st.events.append({"k": "write_fmt", "target": f, "value": piece, "fn": fr.path, "line": t.get("line")})
            return Agg("adt", "std::result::Result::Ok", 0, [Unit()])
        if name in ("std::cmp::PartialEq::eq", "<str as std::cmp::PartialEq>::eq", "<char as std::cmp::PartialEq>::eq",
                    "std::cmp::impls::<impl std::cmp::PartialEq<&B> for &A>::eq",
                    "std::cmp::impls::<impl std::cmp::PartialEq for char>::eq",
                    "std::cmp::impls::<impl std::cmp::PartialEq for u32>::eq",
                    "std::cmp::impls::<impl std::cmp::PartialEq for bool>::eq") and len(args) == 2:
            a, b = strip_ref(args[0]), strip_ref(args[1])
            r = self.binop(st, "Eq", a, b)
            return r
        # ---- concrete iteration over constant arrays / char ranges / chains of them (such loops unroll)
        if self.concrete_iter:
            seg = name.rsplit("::", 1)[-1]
            if seg in ("into_iter", "iter") and len(args) == 1:
                els = self._elements(strip_ref(args[0]))
                if els is not None:
                    return Agg("listiter", None, None, [Agg("array", None, None, els), Const(0)])
                if name == "<I as std::iter::IntoIterator>::into_iter":
                    return args[0]
            if seg == "chain" and len(args) == 2:
                a_, b_ = self._elements(strip_ref(args[0])), self._elements(strip_ref(args[1]))
                if a_ is not None and b_ is not None:
                    return Agg("listiter", None, None, [Agg("array", None, None, a_ + b_), Const(0)])
            if seg in ("copied", "cloned", "by_ref") and len(args) == 1:
                els = self._elements(strip_ref(args[0]))
                if els is not None:
                    return Agg("listiter", None, None, [Agg("array", None, None, els), Const(0)])
            if seg == "rev" and len(args) == 1:
                els = self._elements(strip_ref(args[0]))
                if els is not None:
                    return Agg("listiter", None, None, [Agg("array", None, None, list(reversed(els))), Const(0)])
            if seg == "next" and len(args) == 1:
                it = args[0]
                itv = strip_ref(it)
                if not (isinstance(itv, Agg) and itv.kind == "listiter"):
                    els = self._elements(itv)
                    if els is not None and isinstance(it, Ref) and not it.path:
                        itv = Agg("listiter", None, None, [Agg("array", None, None, els), Const(0)])
                        it.cell.val = itv
                if isinstance(itv, Agg) and itv.kind == "listiter":
                    arr, idx = itv.fields
                    fr.visits.clear()
                    if idx.v < len(arr.fields):
                        itv.fields[1] = Const(idx.v + 1)
                        return Agg("adt", "std::option::Option::Some", 1, [arr.fields[idx.v]])
                    return Agg("adt", "std::option::Option::None", 0, [])
                return None
        elif name == "<I as std::iter::IntoIterator>::into_iter" and len(args) == 1:
            return args[0]
        # ---- any / all over a short concrete list of booleans with an identity-like closure: decided element by element, forking on each symbolic one
        if re.search(r"Iterator>?::(?:any|all)$", name) and len(args) == 2 and self.concrete_iter and getattr(self, "_work", None) is not None:
            els = self._elements(strip_ref(args[0]))
            clo = strip_ref(args[1])
            if els is not None and len(els) <= 16 and isinstance(clo, Agg) and clo.kind == "closure" and clo.label in self.bodies and t.get("target") is not None:
                from . import local as _local
                r = _local.peel(_local.Defs(self.bodies[clo.label]).local(0))
                while r[0] in ("deref", "ref"):
                    r = _local.peel(r[1])
                if r == ("param", 2):
                    want = name.endswith("any")
                    frame_index = len(st.frames) - 1
                    for e in els:
                        v = self.resolve(st, strip_ref(e))
                        if isinstance(v, Const):
                            if bool(v.v) == want:
                                return Const(want)
                            continue
                        if is_top(v) or v is None:
                            return None
                        s2 = st.fork()
                        s2.facts[v.key()] = Const(want)
                        s2.label.append((show(v), show(Const(want))))
                        f2 = s2.frames[frame_index]
                        self.assign(s2, f2, t["dest"], Const(want))
                        self._goto(f2, t["target"])
                        self._work.append(s2)
                        st.facts[v.key()] = Const(not want)
                        st.label.append((show(v), show(Const(not want))))
                    return Const(not want)
        # ---- Option / String models
        if name.startswith("std::option::Option::<T>::") and args:
            meth = name.rsplit("::", 1)[1]
            ov = strip_ref(args[0])
            is_opt = isinstance(ov, Agg) and ov.kind == "adt" and ov.label in ("std::option::Option::Some", "std::option::Option::None")
            if is_opt:
                some = ov.label.endswith("::Some")
                if meth == "is_some":
                    return Const(some)
                if meth == "is_none":
                    return Const(not some)
                if meth in ("unwrap", "expect", "unwrap_or_default", "unwrap_unchecked") and some:
                    return ov.fields[0]
                if meth in ("as_ref", "as_mut", "as_deref", "cloned", "copied", "take"):
                    return args[0]
                if meth == "map" and len(args) == 2:
                    if not some:
                        return ov
                    clo = strip_ref(args[1])
                    if isinstance(clo, Agg) and clo.kind == "closure" and clo.label in self.bodies and fr.depth < self.max_depth:
                        self._push(st, fr, t, self.bodies[clo.label], [self._closure_self(clo), ov.fields[0]], on_return=("some", None, None))
                        return "pushed"
            elif meth in ("as_ref", "as_mut", "as_deref"):
                return args[0]
            return None
        if name.endswith("Clone>::clone") and len(args) == 1:
            v = strip_ref(args[0])
            if isinstance(v, Agg):
                return copy.deepcopy(v)
            if isinstance(v, (Const, CharV, Tmpl, Unit)):
                return v
            return None
        if name in ("std::string::String::with_capacity",):
            return Tmpl([])
        if name in ("std::string::String::push_str", "std::string::String::push") and len(args) == 2:
            tgt = args[0]
            piece = to_tmpl(args[1])
            if isinstance(tgt, Ref) and isinstance(read_loc(tgt.cell, tgt.path), Tmpl) and not tgt.path:
                tgt.cell.val = Tmpl(read_loc(tgt.cell, tgt.path).parts + piece.parts)
                return Unit()
            return None
        if name in ("<std::string::String as std::ops::Add<&str>>::add",) and len(args) == 2:
            a0 = strip_ref(args[0])
            if isinstance(a0, Tmpl):
                return Tmpl(a0.parts + to_tmpl(args[1]).parts)
            return Tmpl(to_tmpl(a0).parts + to_tmpl(args[1]).parts)
        if name in ("<std::string::String as std::ops::AddAssign<&str>>::add_assign",) and len(args) == 2:
            tgt = args[0]
            if isinstance(tgt, Ref) and isinstance(read_loc(tgt.cell, tgt.path), Tmpl) and not tgt.path:
                tgt.cell.val = Tmpl(read_loc(tgt.cell, tgt.path).parts + to_tmpl(args[1]).parts)
                return Unit()
            return None
        if re.search(r"^std::ops::Range(?:Inclusive)?::<Idx>::contains$", name) and len(args) == 2:
            rg, x = strip_ref(args[0]), strip_ref(args[1])
            if isinstance(rg, Call) and rg.callee.endswith("RangeInclusive::<Idx>::new") and len(rg.args) == 2:
                rg = Agg("adt", "std::ops::RangeInclusive", 0, list(rg.args))
            if isinstance(rg, Agg) and rg.kind == "adt" and len(rg.fields) >= 2 and isinstance(x, Const) and isinstance(x.v, int) \
                    and all(isinstance(f, Const) and isinstance(f.v, int) for f in rg.fields[:2]):
                lo, hi = rg.fields[0].v, rg.fields[1].v
                return Const(lo <= x.v <= hi if "Inclusive" in name else lo <= x.v < hi)
        # ---- exact, version-independent char predicates on constant characters
        if name.startswith("std::char::methods::<impl char>::") and args:
            cv = strip_ref(args[0])
            if isinstance(cv, CharV):
                meth = name.rsplit("::", 1)[1]
                o = ord(cv.c)
                ws = (0x9 <= o <= 0xD) or o in (0x20, 0x85, 0xA0, 0x1680, 0x2028, 0x2029, 0x202F, 0x205F, 0x3000) or 0x2000 <= o <= 0x200A
                table = {"is_ascii": o < 0x80, "is_whitespace": ws, "is_ascii_digit": 0x30 <= o <= 0x39,
                         "is_ascii_whitespace": o in (0x20, 0x9, 0xA, 0xC, 0xD), "is_ascii_alphabetic": (0x41 <= o <= 0x5A) or (0x61 <= o <= 0x7A),
                         "is_ascii_punctuation": o < 0x80 and chr(o) in "!\"#$%&'()*+,-./:;<=>?@[\\]^_`{|}~",
                         "is_ascii_control": o < 0x20 or o == 0x7F}
                if meth in table:
                    return Const(bool(table[meth]))
            return None
        if name == "core::slice::<impl [T]>::contains" and len(args) == 2:
            arr, x = strip_ref(args[0]), strip_ref(args[1])
            if isinstance(arr, Agg) and arr.kind == "array" and all(isinstance(f, (CharV, Const)) for f in arr.fields) and isinstance(x, (CharV, Const)):
                return Const(any(f.key() == x.key() for f in arr.fields))
            return None
        if name.endswith("::ne") and "PartialEq" in name and len(args) == 2:
            return self.binop(st, "Ne", strip_ref(args[0]), strip_ref(args[1]))
        return None

    def _push_display(self, st, fr, t, db, self_arg, wrap):
        buf = Cell(Tmpl([]), "fmtbuf")
        self._push(st, fr, t, db, [self_arg, Ref(buf, ())], on_return=("display", buf, wrap))
        return "pushed"

    def _arguments_new(self, tmpl, arr):
        if not (isinstance(tmpl, Const) and isinstance(tmpl.v, bytes)):
            return Tmpl([Hole(Top("format template not constant"))])
        data = tmpl.v
        argv = arr.fields if isinstance(arr, Agg) else None
        parts = []
        i = 0
        nxt = 0
        while i < len(data):
            b = data[i]
            if b == 0:
                break
            if b < 0x80:
                parts.append(data[i + 1:i + 1 + b].decode("utf-8", "replace"))
                i += 1 + b
            elif b == 0x80:
                n = data[i + 1] | (data[i + 2] << 8)
                parts.append(data[i + 3:i + 3 + n].decode("utf-8", "replace"))
                i += 3 + n
            elif b & 0xC0 == 0xC0:
                i += 1
                opts = False
                optdesc = ""
                flags = None
                if b & 0x01:
                    flags = int.from_bytes(data[i:i + 4], "little")
                    i += 4
                if b & 0x02:
                    width = data[i] | (data[i + 1] << 8)
                    i += 2
                    if b & 0x10 or flags is None:
                        opts = True          # indirect width / width without flags: not modelled
                    else:
                        fill = chr(flags & 0x1FFFFF)
                        align = {0: "<", 1: ">", 2: "^", 3: ""}[(flags >> 29) & 3]
                        if flags & (0x7 << 21) or flags & (1 << 24) or flags & (3 << 25):
                            opts = True      # sign / alternate / zero-pad-aware / debug-hex flags: not modelled
                        optdesc = ":%s%s%d" % (fill, align, width)
                elif flags is not None and flags != (0x20 | (3 << 29)):
                    opts = True
                if b & 0x04:
                    i += 2
                    opts = True
                idx = nxt
                if b & 0x08:
                    idx = data[i] | (data[i + 1] << 8)
                    i += 2
                nxt = idx + 1
                if opts or argv is None or idx >= len(argv):
                    parts.append(Hole(Top("format placeholder with options")))
                else:
                    a = strip_ref(argv[idx])
                    if isinstance(a, FmtArg) and optdesc:
                        parts.append(Hole(a.v, a.fmt + optdesc))
                    elif isinstance(a, FmtArg):
                        if isinstance(a.v, Tmpl) and a.fmt == "display":
                            parts.append(a.v)
                        else:
                            parts.append(to_tmpl(a.v, a.fmt))
                    else:
                        parts.append(Hole(a if a is not None else Top("uninit")))
            else:
                return Tmpl([Hole(Top("unknown template byte"))])
        return Tmpl(parts)


# ----------------------------------------------------------------------------- helpers for rules

def field_atom(root, *names):
    v = Sym(root)
    for n in names:
        v = Fld(v, n)
    return v


def leaves_summary(leaves):
    out = {}
    for l in leaves:
        out[l.kind] = out.get(l.kind, 0) + 1
    return out
