"""Exact interval-set algebra over Unicode code points (no sampling)."""

MAX_CP = 0x10FFFF
SURR_LO, SURR_HI = 0xD800, 0xDFFF


def normalize(ranges):
    """ranges: iterable of (lo, hi) inclusive ints (or 1-char strings) -> sorted, merged list."""
    rs = []
    for lo, hi in ranges:
        if isinstance(lo, str):
            lo = ord(lo)
        if isinstance(hi, str):
            hi = ord(hi)
        if lo > hi:
            raise ValueError("inverted range %x..%x" % (lo, hi))
        rs.append((lo, hi))
    rs.sort()
    out = []
    for lo, hi in rs:
        if out and lo <= out[-1][1] + 1:
            out[-1] = (out[-1][0], max(out[-1][1], hi))
        else:
            out.append((lo, hi))
    return out


def count(rs):
    return sum(hi - lo + 1 for lo, hi in rs)


def contains(rs, cp):
    for lo, hi in rs:
        if lo <= cp <= hi:
            return True
    return False


def complement(rs, scalar_only=True):
    out = []
    prev = 0
    for lo, hi in rs:
        if lo > prev:
            out.append((prev, lo - 1))
        prev = hi + 1
    if prev <= MAX_CP:
        out.append((prev, MAX_CP))
    if scalar_only:
        out = difference(out, [(SURR_LO, SURR_HI)])
    return out


def intersect(a, b):
    out = []
    i = j = 0
    while i < len(a) and j < len(b):
        lo = max(a[i][0], b[j][0])
        hi = min(a[i][1], b[j][1])
        if lo <= hi:
            out.append((lo, hi))
        if a[i][1] < b[j][1]:
            i += 1
        else:
            j += 1
    return out


def difference(a, b):
    return intersect(a, complement(b, scalar_only=False))


def union(a, b):
    return normalize(list(a) + list(b))


def first_difference(a, b):
    """None if equal as sets, else (code point, in_a, in_b) for the smallest differing code point."""
    d1 = difference(a, b)
    d2 = difference(b, a)
    cands = []
    if d1:
        cands.append((d1[0][0], True, False))
    if d2:
        cands.append((d2[0][0], False, True))
    if not cands:
        return None
    return min(cands)


def is_subset(a, b):
    return not difference(a, b)


def fmt_cp(cp):
    return "U+%04X" % cp
