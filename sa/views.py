"""Program views: run cargo (nightly, offline) over /repo's *current working tree*
with the grexfacts driver as RUSTC_WRAPPER and load the fact files.

Every view is built into a fresh mktemp directory (cargo's freshness cache would
otherwise skip the wrapper) which is removed before the process exits.  Nothing
is written under /repo.
"""
import atexit
import os
import shutil
import subprocess
import tempfile
import time

from .facts import Program

VERIF = os.path.dirname(os.path.dirname(os.path.abspath(__file__)))
DRIVER = os.path.join(VERIF, "driver", "target", "debug", "grexfacts")
REPO = os.environ.get("GREX_REPO", "/repo")

DEPS_FILTER = ",".join([
    "unicode::perl_word", "unicode::perl_space", "unicode::perl_digit",
    "unicode_tables::perl_word::", "unicode_tables::perl_space::", "unicode_tables::perl_decimal::",
    "unicode_tables::property_bool::WHITE_SPACE", "unicode_tables::general_category::DECIMAL_NUMBER",
    "unicode_tables::case_folding_simple::",
    "is_meta_character", "is_escapeable_character",
])

# minimum body counts: fail closed if the wrapper was skipped or the build broke
FLOORS = {
    "default": {"grex.lib": 150, "grex.bin": 30},
    "python": {"grex.lib": 190},
    "wasm": {"grex.lib": 180},
}

_tmpdirs = []


def _cleanup():
    for d in _tmpdirs:
        shutil.rmtree(d, ignore_errors=True)


atexit.register(_cleanup)


class ViewError(Exception):
    pass


def _sysroot_lib():
    out = subprocess.run(["rustc", "+nightly", "--print", "sysroot"], capture_output=True, text=True)
    if out.returncode != 0:
        raise ViewError("nightly toolchain not available: " + out.stderr)
    return os.path.join(out.stdout.strip(), "lib")


def ensure_driver():
    if not os.path.exists(DRIVER):
        r = subprocess.run(["cargo", "build", "--offline"], cwd=os.path.join(VERIF, "driver"),
                           capture_output=True, text=True)
        if r.returncode != 0 or not os.path.exists(DRIVER):
            raise ViewError("cannot build grexfacts driver:\n" + r.stderr[-2000:])


def _wasm_scratch(repo, tmp):
    """Copy of the crate in which the predicate cfg(target_family = "wasm") is
    rewritten to cfg(all()) in Cargo.toml and src/lib.rs, so that src/wasm.rs is
    type-checked for the host (there is no wasm32 target in this sandbox)."""
    dst = os.path.join(tmp, "wasmcopy")
    os.makedirs(dst)
    shutil.copytree(os.path.join(repo, "src"), os.path.join(dst, "src"))
    if os.path.isdir(os.path.join(repo, "benches")):
        shutil.copytree(os.path.join(repo, "benches"), os.path.join(dst, "benches"))
    for f in ("Cargo.toml", "Cargo.lock", "README.md"):
        if os.path.exists(os.path.join(repo, f)):
            shutil.copy(os.path.join(repo, f), os.path.join(dst, f))
    n = 0
    for f in ("Cargo.toml", os.path.join("src", "lib.rs")):
        p = os.path.join(dst, f)
        s = open(p).read()
        n += s.count('cfg(target_family = "wasm")')
        s = s.replace('cfg(target_family = "wasm")', "cfg(all())")
        open(p, "w").write(s)
    if n < 3:
        raise ViewError("wasm view: expected >=3 cfg(target_family = \"wasm\") predicates, found %d" % n)
    return dst


def build(view, repo=None):
    """Returns (Program, info dict).  view in default|python|wasm."""
    repo = repo or REPO
    ensure_driver()
    tmp = tempfile.mkdtemp(prefix="grexverif-%s-" % view)
    _tmpdirs.append(tmp)
    facts = os.path.join(tmp, "facts")
    os.makedirs(facts)
    env = dict(os.environ)
    env.update({
        "LD_LIBRARY_PATH": _sysroot_lib() + os.pathsep + env.get("LD_LIBRARY_PATH", ""),
        "RUSTFLAGS": "-Zmir-opt-level=0 -Awarnings",
        "RUSTC_WRAPPER": DRIVER,
        "CARGO_TARGET_DIR": os.path.join(tmp, "target"),
        "CARGO_NET_OFFLINE": "true",
        "GREXFACTS_OUT": facts,
        "GREXFACTS_CRATES": "grex",
        "GREXFACTS_DEPS": "regex_syntax",
        "GREXFACTS_FILTER": DEPS_FILTER,
    })
    env.pop("RUSTC_WORKSPACE_WRAPPER", None)
    cwd = repo
    if view == "default":
        cmd = ["cargo", "+nightly", "check", "--offline", "--lib", "--bins"]
    elif view == "python":
        cmd = ["cargo", "+nightly", "check", "--offline", "--lib", "--features", "python"]
    elif view == "wasm":
        cwd = _wasm_scratch(repo, tmp)
        cmd = ["cargo", "+nightly", "check", "--offline", "--lib"]
    else:
        raise ViewError("unknown view " + view)
    t0 = time.time()
    r = subprocess.run(cmd, cwd=cwd, env=env, capture_output=True, text=True)
    wall = time.time() - t0
    # the target dir is not needed once the facts are written
    shutil.rmtree(os.path.join(tmp, "target"), ignore_errors=True)
    if r.returncode != 0:
        raise ViewError("view %s: cargo failed (exit %d):\n%s" % (view, r.returncode, r.stderr[-3000:]))
    prog = Program(view, facts)
    for key, floor in FLOORS[view].items():
        c = prog.crate(key)
        if c is None:
            raise ViewError("view %s: no facts for %s (wrapper not invoked?)" % (view, key))
        if len(c.bodies) < floor:
            raise ViewError("view %s: %s has %d bodies < floor %d" % (view, key, len(c.bodies), floor))
    info = {"view": view, "cmd": " ".join(cmd), "wall_s": round(wall, 2), "crates": prog.summary()}
    return prog, info


_cache = {}


def get(view, repo=None):
    key = (view, repo or REPO)
    if key not in _cache:
        _cache[key] = build(view, repo)
    return _cache[key]
