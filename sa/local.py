"""Intraprocedural expression reconstruction ("origin trees") over dumped MIR.

At mir-opt-level 0 almost every temporary has a single definition, so an operand
can be traced backwards through copies, moves, references and field projections
to the expression it denotes.  A local with several definitions (assigned in
different branches, loop-carried, user `mut` variable) yields ('multi', [...]).

Origin terms (tuples):
  ('const', value, cdict)          decoded constant (value may be None if undecodable)
  ('namedconst', path, value)      named constant / promoted (path, decoded value or None)
  ('static', path)
  ('param', i)                     i-th argument local (1-based MIR local)
  ('upvar', name)                  closure capture read
  ('field', name_or_index, base, adt, variant)
  ('deref', base) / ('ref', base, mut)
  ('index', base, idx)
  ('call', callee, [args], block)  result of a call (callee = resolved def-path)
  ('agg', kind, label, [ops])      aggregate: kind array|tuple|adt|closure; label = adt::variant / closure path
  ('binop', op, a, b) / ('unop', op, a) / ('cast', a, ty) / ('discr', base)
  ('multi', [terms]) / ('unknown', why)
"""
from .facts import callee_name, cval, norm


class Defs:
    def __init__(self, body_or_mir):
        mir = body_or_mir.mir if hasattr(body_or_mir, "mir") else body_or_mir
        self.mir = mir
        self.arg_count = mir["arg_count"]
        self.defs = {}       # local -> list of ('assign', bb, idx, stmt) | ('call', bb, term)
        self.partial = {}    # local -> list of writes through projections
        for bi, b in enumerate(mir["blocks"]):
            if b["cleanup"]:
                continue
            for si, s in enumerate(b["stmts"]):
                if s["k"] == "assign":
                    pl = s["place"]
                    if not pl["proj"]:
                        self.defs.setdefault(pl["l"], []).append(("assign", bi, si, s))
                    else:
                        self.partial.setdefault(pl["l"], []).append(("assign", bi, si, s))
            t = b.get("term")
            if t and t["k"] == "call":
                pl = t["dest"]
                if not pl["proj"]:
                    self.defs.setdefault(pl["l"], []).append(("call", bi, t))
                else:
                    self.partial.setdefault(pl["l"], []).append(("call", bi, t))

    # ------------------------------------------------------------------
    def local(self, l, depth=0, seen=()):
        if depth > 40 or l in seen:
            return ("unknown", "depth/cycle")
        if 1 <= l <= self.arg_count:
            if l not in self.defs:
                return ("param", l)
        ds = self.defs.get(l, [])
        if not ds:
            if l in self.partial:
                return ("unknown", "only partial writes to _%d" % l)
            return ("unknown", "no def of _%d" % l)
        outs = []
        for d in ds:
            if d[0] == "assign":
                outs.append(self.rvalue(d[3]["rv"], depth + 1, seen + (l,), d[1]))
            else:
                t = d[2]
                lit = self._vec_literal(t, depth, seen + (l,)) if (callee_name(t) or "").endswith("box_assume_init_into_vec_unsafe") else None
                if lit is not None:
                    # vec![a, b, ..]: the elements are written through the box before it is turned into the vector
                    outs.append(("call", "vec!", [lit], d[1]))
                    continue
                outs.append(("call", callee_name(t),
                             [self.operand(a, depth + 1, seen + (l,)) for a in t["args"]], d[1]))
        if 1 <= l <= self.arg_count:
            outs.insert(0, ("param", l))
        if len(outs) == 1:
            return outs[0]
        return ("multi", outs)

    def _vec_literal(self, t, depth, seen):
        """array aggregate stored through the uninitialised box that `vec![..]` turns into the vector, or None"""
        a0 = t["args"][0].get("place") if t["args"] else None
        if a0 is None:
            return None
        boxes = {a0["l"]}
        for _ in range(3):
            for b_ in list(boxes):
                for d in self.defs.get(b_, []):
                    if d[0] == "assign" and d[3]["rv"]["k"] == "use" and d[3]["rv"]["op"].get("place"):
                        boxes.add(d[3]["rv"]["op"]["place"]["l"])
        for l_, ws in self.partial.items():
            for w in ws:
                if w[0] != "assign" or w[3]["rv"]["k"] != "aggregate" or w[3]["rv"].get("agg") != "array":
                    continue
                if not (w[3]["place"]["proj"] and w[3]["place"]["proj"][0]["k"] == "deref"):
                    continue
                # the pointer written through is derived from one of the boxes
                src = set()
                for d in self.defs.get(l_, []):
                    if d[0] == "assign":
                        rv = d[3]["rv"]
                        op = rv.get("a") or rv.get("op")
                        if isinstance(op, dict) and op.get("place"):
                            src.add(op["place"]["l"])
                if src & boxes:
                    return self.rvalue(w[3]["rv"], depth + 1, seen, w[1])
        return None

    def place(self, pl, depth=0, seen=()):
        cur = self.local(pl["l"], depth, seen)
        for e in pl["proj"]:
            k = e["k"]
            if k == "deref":
                if cur[0] == "ref":
                    cur = cur[1]
                else:
                    cur = ("deref", cur)
            elif k == "field":
                if "upvar" in e:
                    cur = ("upvar", e["upvar"])
                    continue
                # field of a known aggregate: select the operand
                if cur[0] == "agg" and cur[1] in ("tuple", "adt", "array") and e["i"] < len(cur[3]):
                    cur = cur[3][e["i"]]
                else:
                    cur = ("field", e.get("name", e["i"]), cur, norm(e.get("adt")), e.get("variant"))
            elif k == "downcast":
                cur = ("downcast", e.get("variant"), cur)
            elif k == "index":
                cur = ("index", cur, self.local(e["l"], depth + 1, seen))
            else:
                cur = ("proj", k, cur)
        return cur

    def operand(self, op, depth=0, seen=()):
        k = op["k"]
        if k in ("copy", "move"):
            return self.place(op["place"], depth, seen)
        if k == "const":
            c = op["c"]
            if c.get("t") == "uneval":
                return ("namedconst", norm(c["path"]) + ("" if c.get("promoted") is None else "::promoted[%d]" % c["promoted"]),
                        cval(c), c)
            if c.get("t") == "static_ref":
                return ("static", norm(c["path"]))
            return ("const", cval(c), c)
        return ("unknown", "operand kind " + k)

    def rvalue(self, rv, depth=0, seen=(), block=None):
        k = rv["k"]
        if k == "use":
            return self.operand(rv["op"], depth, seen)
        if k == "ref":
            return ("ref", self.place(rv["place"], depth, seen), rv["mut"])
        if k == "rawptr":
            return ("ref", self.place(rv["place"], depth, seen), True)
        if k == "binop":
            return ("binop", rv["op"], self.operand(rv["a"], depth, seen), self.operand(rv["b"], depth, seen))
        if k == "unop":
            return ("unop", rv["op"], self.operand(rv["a"], depth, seen))
        if k == "cast":
            return ("cast", self.operand(rv["a"], depth, seen), norm(rv["ty"]), rv["kind"])
        if k == "discr":
            return ("discr", self.place(rv["place"], depth, seen))
        if k == "aggregate":
            a = rv["agg"]
            label = None
            if a == "adt":
                label = "%s::%s" % (norm(rv["adt"]), rv["variant"])
            elif a == "closure":
                label = norm(rv["closure"])
            return ("agg", a, label, [self.operand(o, depth, seen) for o in rv["ops"]])
        if k == "repeat":
            return ("agg", "repeat", rv["n"], [self.operand(rv["a"], depth, seen)])
        return ("unknown", "rvalue " + k)


def peel(t):
    """Remove reference/dereference/cast-free wrappers."""
    while t and t[0] in ("ref", "deref"):
        t = t[1]
    return t


def walk(t):
    """All sub-terms of an origin tree (pre-order)."""
    yield t
    if not isinstance(t, tuple):
        return
    for x in t[1:]:
        if isinstance(x, tuple) and x and isinstance(x[0], str):
            yield from walk(x)
        elif isinstance(x, list):
            for y in x:
                if isinstance(y, tuple):
                    yield from walk(y)


def calls_in(t):
    return [x for x in walk(t) if x[0] == "call"]


def consts_in(t):
    return [x for x in walk(t) if x[0] in ("const", "namedconst")]


def show(t, depth=0):
    """Compact rendering for evidence/messages."""
    if not isinstance(t, tuple):
        return repr(t)
    k = t[0]
    if depth > 8:
        return "..."
    if k == "const":
        return repr(t[1])
    if k == "namedconst":
        return t[1]
    if k == "static":
        return "static " + t[1]
    if k == "param":
        return "arg%d" % t[1]
    if k == "upvar":
        return "upvar(%s)" % t[1]
    if k == "field":
        return "%s.%s" % (show(t[2], depth + 1), t[1])
    if k == "deref":
        return "*" + show(t[1], depth + 1)
    if k == "ref":
        return "&" + show(t[1], depth + 1)
    if k == "downcast":
        return "(%s as %s)" % (show(t[2], depth + 1), t[1])
    if k == "index":
        return "%s[%s]" % (show(t[1], depth + 1), show(t[2], depth + 1))
    if k == "call":
        return "%s(%s)" % (t[1], ", ".join(show(a, depth + 1) for a in t[2]))
    if k == "agg":
        return "%s%s[%s]" % (t[1], (":" + str(t[2])) if t[2] else "", ", ".join(show(a, depth + 1) for a in t[3]))
    if k == "binop":
        return "%s(%s, %s)" % (t[1], show(t[2], depth + 1), show(t[3], depth + 1))
    if k == "unop":
        return "%s(%s)" % (t[1], show(t[2], depth + 1))
    if k == "cast":
        return "(%s as %s)" % (show(t[1], depth + 1), t[2])
    if k == "discr":
        return "discr(%s)" % show(t[1], depth + 1)
    if k == "multi":
        return "{" + " | ".join(show(a, depth + 1) for a in t[1]) + "}"
    return "%s?" % (k,)


def const_value(t):
    """Decoded value of a ('const', v, ..) or ('namedconst', path, v, ..) term; None otherwise."""
    if not isinstance(t, tuple):
        return None
    if t[0] == "const":
        return t[1]
    if t[0] == "namedconst":
        return t[2]
    return None


def is_const(t):
    return isinstance(t, tuple) and t[0] in ("const", "namedconst")
