"""Loading and indexing of grexfacts JSON files.

A `Program` is one *view* (default / python / wasm / deps): the fact files of
the crates compiled in that view.  Nothing here contains a rule.
"""
import json
import os
import re

_LT = re.compile(r"::<'[a-z_]+(?:, *'[a-z_]+)*>")
_LT2 = re.compile(r"<'[a-z_]+(?:, *'[a-z_]+)*>")
_LT3 = re.compile(r"'[a-z_]+ ")


def norm(path):
    """Strip lifetime noise from def-paths and type strings:
    dfa::Dfa::<'a>::insert -> dfa::Dfa::insert; RegExp<'_> -> RegExp; &'a T -> &T."""
    if path is None:
        return None
    p = _LT.sub("", path)
    if "::__rt::" in p:
        # re-export path printed when the defining crate is reachable through a facade (wasm_bindgen::__rt::core::..)
        p = re.sub(r"\b[a-z_0-9]+::__rt::(core|std|alloc)::", r"\1::", p)
    p = _LT2.sub("", p)
    p = _LT3.sub("", p)
    return p


class Body:
    def __init__(self, crate, j):
        self.crate = crate
        self.j = j
        self.raw_path = j["path"]
        self.path = norm(j["path"])
        self.kind = j["kind"]
        self.file = j["span"]["file"]
        self.line = j["span"]["line"]
        self.from_expansion = j.get("exp", False)
        self.macros = j.get("macros", [])
        self.derived = j.get("derived", False)
        self.is_pub = j.get("pub", False)
        self.impl_self = norm(j.get("impl_self"))
        self.impl_trait = j.get("impl_trait")
        self.parent = norm(j.get("parent"))
        self.direct_parent = norm(j.get("direct_parent"))
        self.captures = j.get("captures", [])
        self.mir = j["mir"]
        self.blocks = self.mir["blocks"]
        self.locals = self.mir["locals"]
        self.arg_count = self.mir["arg_count"]
        self.promoted = j.get("promoted", [])
        self.sig_inputs = [norm(t) for t in j.get("sig_inputs", [])]
        self.sig_output = norm(j.get("sig_output"))

    def loc(self, line=None):
        return "%s:%s" % (self.file, line if line is not None else self.line)

    def __repr__(self):
        return "<Body %s>" % self.path

    # ---- iteration helpers (normal-path blocks only unless cleanup=True)
    def iter_blocks(self, cleanup=False):
        for i, b in enumerate(self.blocks):
            if b["cleanup"] and not cleanup:
                continue
            yield i, b

    def calls(self, cleanup=False):
        for i, b in self.iter_blocks(cleanup):
            t = b.get("term")
            if t and t["k"] == "call":
                yield i, t

    def local_ty(self, l):
        return norm(self.locals[l]["ty"])


def callee_name(term, resolved=True):
    """Normalised def-path of a call terminator's callee (resolved instance if
    available, declared otherwise); None for indirect calls."""
    c = term["callee"]
    if "indirect" in c:
        return None
    if resolved and c.get("res"):
        return norm(c["res"])
    return norm(c["decl"])


def callee_decl(term):
    c = term["callee"]
    if "indirect" in c:
        return None
    return norm(c["decl"])


class Crate:
    def __init__(self, j, file):
        self.j = j
        self.file = file
        self.name = j["crate"]
        self.crate_type = j["crate_type"]
        self.full = j.get("full", True)
        self.bodies = [Body(self, b) for b in j["bodies"]]
        self.by_path = {}
        for b in self.bodies:
            self.by_path.setdefault(b.path, b)
        self.adts = {norm(a["path"]): a for a in j.get("adts", [])}
        self.consts = {norm(c["path"]): c for c in j.get("consts", [])}
        self.attrs = j.get("attrs", [])
        self.unsafe = j.get("unsafe", [])

    def body(self, path):
        return self.by_path.get(path)

    def find(self, pred):
        return [b for b in self.bodies if pred(b)]

    def closures_of(self, parent_path):
        return [b for b in self.bodies if b.kind == "closure" and b.parent == parent_path]


class Program:
    def __init__(self, name, facts_dir):
        self.name = name
        self.dir = facts_dir
        self.crates = {}
        for f in sorted(os.listdir(facts_dir)):
            if not f.endswith(".json"):
                continue
            with open(os.path.join(facts_dir, f)) as fh:
                j = json.load(fh)
            self.crates[f[: -len(".json")]] = Crate(j, f)

    @property
    def lib(self):
        return self.crates.get("grex.lib")

    @property
    def bin(self):
        return self.crates.get("grex.bin")

    def crate(self, key):
        return self.crates.get(key)

    def summary(self):
        return {k: {"bodies": len(c.bodies), "adts": len(c.adts), "consts": len(c.consts)}
                for k, c in self.crates.items()}


# ---------------------------------------------------------------- JSON value helpers

def cval(c):
    """Python value of a dumped constant (bool/int/char->str/str/bytes/seq/tuple)
    or None if not decodable.  `uneval` constants carry their evaluated `value`."""
    if c is None:
        return None
    t = c.get("t")
    if t == "uneval":
        return cval(c.get("value")) if "value" in c else None
    if t == "bool":
        return bool(c["v"])
    if t == "int":
        return int(c["v"])
    if t == "char":
        return chr(c["v"])
    if t == "str":
        return c["v"]
    if t == "bytes":
        return bytes(c["v"])
    if t == "seq":
        return [cval(x) for x in c["v"]]
    if t == "tuple":
        return tuple(cval(x) for x in c["v"])
    if t == "static_ref":
        return cval(c.get("value"))
    return None


def op_const(op):
    """If operand is a constant return its dumped constant dict else None."""
    if op and op.get("k") == "const":
        return op["c"]
    return None


def op_place(op):
    if op and op.get("k") in ("copy", "move"):
        return op["place"]
    return None


def place_is_local(pl):
    return pl is not None and not pl["proj"]
