"""Interprocedural value-flow (provenance) graph: flow-insensitive, field-sensitive
(per ADT/variant/field, object-insensitive), context-insensitive, one crate.

Nodes (tuples):
  ('L', fn, local)            MIR local of a body (parameters are locals 1..arg_count)
  ('F', adt, variant, index)  field of an ADT variant (all instances merged)
  ('U', closure, index)       captured variable of a closure
  ('T', fn, local, index)     field of a tuple-typed local
  ('C', repr)                 constant
  ('X', fn, what)             computed / external value (call to a non-local function, arithmetic)
Edges go from the origin of a value to where it flows.  References are transparent."""
from .facts import callee_name, norm


class VFlow:
    def __init__(self, crate):
        self.crate = crate
        self.pred = {}     # node -> set(nodes flowing into it)
        self.closure_idx = {}
        for b in crate.bodies:
            if b.kind == "closure":
                self.closure_idx[b.path] = {c["name"]: i for i, c in enumerate(b.captures)}
        self.adt_fields = {}
        for path, a in crate.adts.items():
            for v in a["variants"]:
                self.adt_fields[(path, v["name"])] = [f["name"] for f in v["fields"]]
        for b in crate.bodies:
            self._body(b)

    def edge(self, src, dst):
        if src is None or dst is None or src == dst:
            return
        self.pred.setdefault(dst, set()).add(src)

    # ---- place -> node
    def place_node(self, b, pl):
        node = ("L", b.path, pl["l"])
        for e in pl["proj"]:
            k = e["k"]
            if k == "field":
                if "upvar" in e and b.kind == "closure":
                    node = ("U", b.path, e["i"])
                elif e.get("adt"):
                    node = ("F", norm(e["adt"]), e["variant"], e["i"])
                else:
                    base_l = node[2] if node[0] == "L" else None
                    if base_l is not None:
                        node = ("T", b.path, base_l, e["i"])
                    else:
                        node = ("X", b.path, "field of " + str(node))
            elif k in ("deref", "downcast"):
                continue
            elif k in ("index", "constindex", "subslice"):
                continue       # element of a collection: merged with the collection
            else:
                node = ("X", b.path, "projection " + k)
        return node

    def operand_node(self, b, op):
        k = op["k"]
        if k in ("copy", "move"):
            return self.place_node(b, op["place"])
        if k == "const":
            c = op["c"]
            t = c.get("t")
            if t in ("bool", "int"):
                return ("C", str(c["v"]))
            if t == "char":
                return ("C", "char %d" % c["v"])
            if t == "str":
                return ("C", "str " + c["v"])
            if t == "uneval":
                return ("C", "const " + norm(c["path"]))
            return ("C", t or "?")
        return None

    def _body(self, b):
        for bi, blk in b.iter_blocks(cleanup=True):
            for s in blk["stmts"]:
                if s["k"] != "assign":
                    continue
                dst = self.place_node(b, s["place"])
                rv = s["rv"]
                k = rv["k"]
                if k == "use":
                    self.edge(self.operand_node(b, rv["op"]), dst)
                elif k in ("ref", "rawptr"):
                    self.edge(self.place_node(b, rv["place"]), dst)
                elif k == "cast":
                    self.edge(self.operand_node(b, rv["a"]), dst)
                elif k in ("binop", "unop", "discr", "repeat"):
                    self.edge(("X", b.path, k + " " + rv.get("op", "")), dst)
                elif k == "aggregate":
                    a = rv["agg"]
                    for i, o in enumerate(rv["ops"]):
                        src = self.operand_node(b, o)
                        if a == "adt":
                            self.edge(src, ("F", norm(rv["adt"]), rv["variant"], i))
                        elif a == "closure":
                            self.edge(src, ("U", norm(rv["closure"]), i))
                        elif a == "tuple" and dst[0] == "L":
                            self.edge(src, ("T", b.path, dst[2], i))
                        else:
                            self.edge(src, dst)
                else:
                    self.edge(("X", b.path, k), dst)
            t = blk.get("term")
            if not t or t["k"] != "call":
                continue
            dst = self.place_node(b, t["dest"])
            n = callee_name(t)
            cb = self.crate.body(n) if n else None
            if cb is None and n is not None:
                d = norm(t["callee"].get("decl"))
                cb = self.crate.body(d)
            if cb is not None:
                for i, a in enumerate(t["args"]):
                    self.edge(self.operand_node(b, a), ("L", cb.path, i + 1))
                self.edge(("L", cb.path, 0), dst)
            else:
                # external callee: identity-like wrappers keep provenance of their first argument; others are opaque
                if n and (n.endswith("::clone") or n.endswith("::deref") or n.endswith("::borrow") or n.endswith("::as_ref")
                          or n.endswith("::into") or n.endswith("::from") or n.endswith("::to_owned")) and t["args"]:
                    self.edge(self.operand_node(b, t["args"][0]), dst)
                else:
                    self.edge(("X", b.path, "call " + (n or "?"), bi), dst)

    # ---- queries
    def sources(self, node, stop=None, limit=20000):
        """Backward reachability: returns (set of terminal nodes, visited count).  A node is terminal if it has no
        predecessor or stop(node) is true."""
        seen = {node}
        work = [node]
        out = set()
        while work and len(seen) < limit:
            x = work.pop()
            ps = self.pred.get(x)
            if (stop is not None and stop(x) and x != node) or not ps:
                out.add(x)
                continue
            if x[0] == "L" and not ps:
                out.add(x)
            for p in ps:
                if p not in seen:
                    seen.add(p)
                    work.append(p)
        return out, len(seen)
